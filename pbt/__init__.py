"""Property-based checks for the 20 xgi properties in /verif/properties.jsonl (see DESIGN.md)."""
