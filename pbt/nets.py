"""Shared pieces: label alphabets, attribute strategies, JSON network specs and builders,
snapshots (observable / deep) and the incidence-integrity predicates of C01-C03."""

import copy
import itertools
import numbers
import pickle
import uuid
import weakref
from fractions import Fraction

import numpy as np

from hypothesis import strategies as st

import xgi
from xgi.exception import IDNotFound, XGIError

LIBERR = (XGIError, IDNotFound)

NODE_KINDS = {
    "int": [0, 1, 2, 3, 4, 5, 6],
    "gap": [-2, -1, 0, 3, 7, 10, 40],  # -1 and -2 have the same hash in CPython
    "str": ["a", "b", "c", "d", "e", "f", "g"],
    "str2": ["n1", "b", "c_", "0", "10", "x9", "zz"],
    # three labels only: member sets collide all the time (duplicate edges, nested edges, IDs reused after merges)
    "tiny": [0, 1, 2],
}
EID_ALPH = [0, 1, 2, 3, 5, 7, "x", "y"]
ZERO = {"int": 0, "float": 0.0, "npint": np.int64(0)}  # the falsy explicit IDs
ATTR_NAMES = ["color", "w", "weight", "tag", "label", "name"]

kinds = st.sampled_from(sorted(NODE_KINDS))
# label kinds for networks that are built edge by edge (not through the format-sniffing bulk adders): also
# mixed int/str labels, floats (integral and not) - legitimate hashable node IDs
SPEC_KINDS = dict(NODE_KINDS)
SPEC_KINDS["mixed"] = [0, "a", 2, "b", 10, "c", -1]
SPEC_KINDS["float"] = [0.0, 1.5, 2.0, -3.0, 10.0, 0.25, 7.0]
# kinds that are only drawn where a check asks for them by name
# "brk": labels with an interior character that str.splitlines() treats as a line boundary but a file iterated in binary
# mode does not (\r, \x0b, \x0c, \x1c-\x1e, \x85, U+2028, U+2029) - only for non-whitespace delimiters
EXTRA_KINDS = {"brk": ["x\ry", "a\u2028b", "p\x0bq", "c", "d", "e\x85f", "g\x1dh"], "uni": ["\u00e9", "\u00f1", "a", "\u00fc", "b", "\u00df", "\u00f8"]}  # non-ASCII strings (latin-1 representable)
spec_kinds = st.sampled_from(sorted(SPEC_KINDS))
# mixed int/str labels hit the documented ambiguity of the bulk formats ("members cannot be strings"; a str first
# member followed by a non-str is parsed as (members, id)), also inside library functions that add in bulk
# (from_hyperedge_list, SimplicialComplex(...)): only checks that never go through a bulk adder use them
spec_kinds_unmixed = st.sampled_from(sorted(k for k in SPEC_KINDS if k != "mixed"))


def node_of(kind):
    return st.sampled_from(NODE_KINDS[kind])


attr_value = st.one_of(st.integers(-2, 5), st.sampled_from([0.5, 2.0, 1.5]), st.sampled_from(["red", "blue", "z"]))
nested_value = st.one_of(
    attr_value,
    st.lists(st.integers(0, 3), max_size=3),
    st.dictionaries(st.sampled_from(["k", "j"]), st.lists(st.integers(0, 3), max_size=2), max_size=2),
    st.lists(st.lists(st.integers(0, 3), max_size=2), min_size=1, max_size=2),
)
# {"__t": [...]} is turned into a *tuple* by build(): an immutable container holding mutable values
# (not JSON-representable, so only used where nothing is written to a file: C07, C08)
tuple_value = st.fixed_dictionaries({"__t": st.tuples(st.sampled_from(["v1", 7]), st.lists(st.integers(0, 3), max_size=2)).map(list)})


# {"__s": [...]} is turned into a *set* (what merge_duplicate_edges(merge_rule="union") stores as attribute values)
set_value = st.fixed_dictionaries({"__s": st.lists(st.sampled_from(["blue", "red", 1, 2]), max_size=3, unique_by=repr)})


def realise(v):
    """JSON attribute value -> Python value ({"__t": [...]} becomes a tuple, {"__s": [...]} a set)"""
    if isinstance(v, dict):
        if set(v) == {"__t"}:
            return tuple(realise(x) for x in v["__t"])
        if set(v) == {"__s"}:
            return set(v["__s"])
        return {k: realise(x) for k, x in v.items()}
    if isinstance(v, list):
        return [realise(x) for x in v]
    return v


def attrs(max_size=2, nested=False, tuples=False):
    v = attr_value
    if nested:
        v = st.one_of(nested_value, nested_value, tuple_value, set_value) if tuples else nested_value
    return st.dictionaries(st.sampled_from(ATTR_NAMES), v, max_size=max_size)


def members_of(kind, min_size=0, max_size=5, none_p=False):
    """list of node labels (duplicates possible); with none_p a None may be inserted"""
    base = st.lists(node_of(kind), min_size=min_size, max_size=max_size)
    if not none_p:
        return base
    return st.one_of(
        base,
        base,
        base,
        base,
        base,
        base,
        st.tuples(base, st.integers(0, 5)).map(lambda t: t[0][: t[1]] + [None] + t[0][t[1] :]),
    )


def op_lists(op, max_ops):
    """histories: a mix of short ones (cheap, many) and long ones (Hypothesis's default list sizes are
    geometric, which would leave histories of >= 10 ops rare)"""
    lo = min(8, max_ops)
    return st.one_of(st.lists(op, max_size=lo), st.lists(op, min_size=lo, max_size=max_ops))


# 0 is drawn three times as often as the other literals: a falsy ID is the classic way to lose an explicit ID (`if idx:`)
eid_literal = st.sampled_from([0, 0] + EID_ALPH + [2**53 + 1])  # 2**53 + 1: not representable as a float
# hashable, non-iterable IDs of other types than int / str ("idx : hashable"); ['!', k] in a history
EXOTIC = [complex(1, 2), float("inf"), uuid.UUID(int=7), Fraction(1, 2)]
eid_exotic = st.tuples(st.just("!"), st.integers(0, len(EXOTIC) - 1)).map(list)
# references to IDs that exist right now, for removal lists (duplicates wanted)
eid_existing = st.tuples(st.just("#"), st.integers(0, 3)).map(list)
eid_ref = st.one_of(eid_literal, eid_literal, eid_literal, eid_literal, st.tuples(st.just("#"), st.integers(0, 11)).map(list), st.tuples(st.just("#"), st.integers(0, 11)).map(list),
                    st.tuples(st.sampled_from(["+", "+", "+f", "+n"]), st.integers(0, 3)).map(list), st.tuples(st.sampled_from(["+", "+", "+f", "+n"]), st.integers(0, 3)).map(list),
                    st.tuples(st.just("-"), st.integers(0, 5)).map(list), st.tuples(st.just("-"), st.integers(0, 5)).map(list), eid_exotic)
# lists of IDs to remove: mostly IDs that exist, repeated ones included
eid_removal_list = st.one_of(
    st.lists(st.one_of(eid_existing, eid_existing, eid_ref), max_size=4),
    st.lists(st.one_of(eid_existing, eid_existing, eid_ref), max_size=4),
    st.lists(st.one_of(eid_existing, eid_existing, eid_ref), max_size=4),
    # an existing ID twice, then other IDs: the call fails half-way through the list
    st.tuples(eid_existing, st.lists(eid_existing, min_size=1, max_size=2)).map(lambda t: [t[0], t[0]] + t[1]),
)
# an edge-ID reference: a literal, ['#', k] = k-th existing ID, or ['+', k] = (next automatic ID) + k, i.e. a new
# explicit integer ID at or just above the counter - the IDs an automatic ID is most likely to collide with later
# ['-', k] = k-th edge ID that existed earlier in this history and is gone now (IDs freed by removals and merges)

CTYPES = ["list", "tuple", "set", "frozenset", "iter"]


def container(ctype, xs):
    if ctype == "list":
        return list(xs)
    if ctype == "tuple":
        return tuple(xs)
    if ctype == "set":
        return set(xs)
    if ctype == "frozenset":
        return frozenset(xs)
    if ctype == "iter":
        return iter(list(xs))
    raise ValueError(ctype)


_SEEN = weakref.WeakKeyDictionary()  # network -> edge IDs seen at earlier resolve calls (insertion ordered)


def note_ids(H):
    """remember the edge IDs present now (called before every op of a history)"""
    try:
        seen = _SEEN.setdefault(H, {})
        for e in H._edge:
            seen.setdefault(e, None)
        return seen
    except TypeError:
        return {}


def resolve_eid(H, ref):
    """literal edge ID, or ['#', k] = k-th currently existing edge ID (modulo), else a literal"""
    seen = note_ids(H)
    if isinstance(ref, list) and ref[0] == "-":
        gone = [e for e in seen if e not in H._edge]
        return gone[-1 - (ref[1] % len(gone))] if gone else EID_ALPH[ref[1] % len(EID_ALPH)]
    if isinstance(ref, list) and ref[0] == "!":
        return EXOTIC[ref[1] % len(EXOTIC)]
    if isinstance(ref, list) and ref[0] in ("+", "+f", "+n"):  # '+f' / '+n': the same ID as an integer-valued float / numpy int
        try:
            v = peek_uid(H) + ref[1]
        except Exception:  # noqa: BLE001
            v = 1000 + ref[1]
        if ref[0] == "+n":
            import numpy as np

            return np.int64(v)
        return float(v) if ref[0] == "+f" else v
    if isinstance(ref, list):
        ids = list(H._edge)
        k = ref[1]
        if ids:
            return ids[k % len(ids)]
        return EID_ALPH[k % len(EID_ALPH)]
    return ref


# --------------------------------------------------------------------------------------------
# snapshots


def kind_of(H):
    if isinstance(H, xgi.SimplicialComplex):
        return "SC"
    if isinstance(H, xgi.DiHypergraph):
        return "DH"
    return "H"


def freeze_val(v):
    """hashable, order-insensitive-for-sets canonical form of an attribute value"""
    if isinstance(v, dict):
        return ("d", tuple(sorted(((repr(k), freeze_val(x)) for k, x in v.items()))))
    if isinstance(v, (list, tuple)):
        return ("l", type(v).__name__, tuple(freeze_val(x) for x in v))
    if isinstance(v, (set, frozenset)):
        return ("s", frozenset(freeze_val(x) for x in v))
    if isinstance(v, numbers.Number) and not isinstance(v, bool):
        # 0 == 0.0 == np.int64(0) are the same dict key in Python; keep them the same here
        try:
            return ("v", "num", int(v) if float(v).is_integer() else float(v))
        except (TypeError, ValueError, OverflowError):
            return ("v", "num", repr(v))
    try:
        hash(v)
        return ("v", type(v).__name__, v)
    except TypeError:
        return ("r", repr(v))


def snap_obs(H):
    """Observable snapshot through the public API only.
    (ordered node list, {node: attrs}, ordered edge list, {edge: members}, {edge: attrs}, net attrs)
    members = frozenset, or (frozenset tail, frozenset head) for a DiHypergraph."""
    nodes = list(H.nodes)
    edges = list(H.edges)
    nattr = {n: copy.deepcopy(dict(H.nodes[n])) for n in nodes}
    eattr = {e: copy.deepcopy(dict(H.edges[e])) for e in edges}
    if isinstance(H, xgi.DiHypergraph):
        mem = {}
        for e in edges:
            t, h = H.edges.dimembers(e)
            mem[e] = (frozenset(t), frozenset(h))
    else:
        mem = {e: frozenset(H.edges.members(e)) for e in edges}
    return (nodes, nattr, edges, mem, eattr, copy.deepcopy(dict(H._net_attr)))


def peek_uid(H):
    """next automatic edge ID, read from a copy of the counter (the counter itself is untouched)"""
    return next(copy.copy(H._edge_uid))


def snap_deep(H):
    """Deep snapshot: observable part + memberships, member container types, counter, frozen flag."""
    obs = snap_obs(H)
    if isinstance(H, xgi.DiHypergraph):
        ms = {n: (frozenset(H._node[n]["in"]), frozenset(H._node[n]["out"])) for n in H._node}
        ctypes = {e: (type(H._edge[e]["in"]).__name__, type(H._edge[e]["out"]).__name__) for e in H._edge}
    else:
        ms = {n: frozenset(H._node[n]) for n in H._node}
        ctypes = {e: type(H._edge[e]).__name__ for e in H._edge}
    return {
        "nodes": obs[0],
        "nattr": obs[1],
        "edges": obs[2],
        "members": obs[3],
        "eattr": obs[4],
        "net": obs[5],
        "memberships": ms,
        "ctypes": ctypes,
        "uid": peek_uid(H),
        "frozen": bool(getattr(H, "is_frozen", False)),
        "nattr_keys": list(H._node_attr),
        "eattr_keys": list(H._edge_attr),
    }


def diff_deep(a, b):
    """names of the snapshot components that differ (ordered lists compare with order)"""
    return [k for k in a if a[k] != b[k]]


def structure(H):
    """structural snapshot: node set, edge set, members"""
    o = snap_obs(H)
    return (frozenset(o[0]), frozenset(o[2]), tuple(sorted(((repr(e), m) for e, m in o[3].items()), key=lambda t: t[0])))


# --------------------------------------------------------------------------------------------
# integrity (C01 / C02 / C03), through the public views first


def integrity(H):
    """list of (tag, detail) violations of two-way incidence consistency; [] when consistent"""
    errs = []
    try:
        nodes = list(H.nodes)
        edges = list(H.edges)
    except Exception as e:  # noqa: BLE001
        return [("views-raise", repr(e))]
    nodeset, edgeset = set(nodes), set(edges)
    di = isinstance(H, xgi.DiHypergraph)

    def call(tag, f, *a):
        try:
            return f(*a)
        except Exception as e:  # noqa: BLE001
            errs.append((tag + "-raises", "%r on %r" % (e, a)))
            return None

    if di:
        for e in edges:
            dm = call("dimembers", H.edges.dimembers, e)
            if dm is None:
                continue
            tail, head = dm
            for n in tail:
                if n not in nodeset:
                    errs.append(("edge-refers-to-absent-node", "edge %r tail %r" % (e, n)))
                else:
                    ms = call("dimemberships", H.nodes.dimemberships, n)
                    if ms is not None and e not in ms[1]:
                        errs.append(("tail-without-out-membership", "edge %r node %r" % (e, n)))
            for n in head:
                if n not in nodeset:
                    errs.append(("edge-refers-to-absent-node", "edge %r head %r" % (e, n)))
                else:
                    ms = call("dimemberships", H.nodes.dimemberships, n)
                    if ms is not None and e not in ms[0]:
                        errs.append(("head-without-in-membership", "edge %r node %r" % (e, n)))
            a = call("edge-attr", H.edges.__getitem__, e)
            if a is not None and not isinstance(a, dict):
                errs.append(("edge-attr-not-dict", repr(e)))
            if call("head", H.edges.head, e) != head or call("tail", H.edges.tail, e) != tail:
                errs.append(("head-tail-disagree-with-dimembers", repr(e)))
        for n in nodes:
            ms = call("dimemberships", H.nodes.dimemberships, n)
            if ms is None:
                continue
            inm, outm = ms
            for e in inm:
                if e not in edgeset:
                    errs.append(("node-refers-to-absent-edge", "node %r in-membership %r" % (n, e)))
                else:
                    dm = call("dimembers", H.edges.dimembers, e)
                    if dm is not None and n not in dm[1]:
                        errs.append(("in-membership-without-head", "node %r edge %r" % (n, e)))
            for e in outm:
                if e not in edgeset:
                    errs.append(("node-refers-to-absent-edge", "node %r out-membership %r" % (n, e)))
                else:
                    dm = call("dimembers", H.edges.dimembers, e)
                    if dm is not None and n not in dm[0]:
                        errs.append(("out-membership-without-tail", "node %r edge %r" % (n, e)))
            a = call("node-attr", H.nodes.__getitem__, n)
            if a is not None and not isinstance(a, dict):
                errs.append(("node-attr-not-dict", repr(n)))
    else:
        for e in edges:
            mem = call("members", H.edges.members, e)
            if mem is None:
                continue
            for n in mem:
                if n not in nodeset:
                    errs.append(("edge-refers-to-absent-node", "edge %r member %r" % (e, n)))
                else:
                    ms = call("memberships", H.nodes.memberships, n)
                    if ms is not None and e not in ms:
                        errs.append(("member-without-membership", "edge %r node %r" % (e, n)))
            a = call("edge-attr", H.edges.__getitem__, e)
            if a is not None and not isinstance(a, dict):
                errs.append(("edge-attr-not-dict", repr(e)))
        for n in nodes:
            ms = call("memberships", H.nodes.memberships, n)
            if ms is None:
                continue
            for e in ms:
                if e not in edgeset:
                    errs.append(("node-refers-to-absent-edge", "node %r membership %r" % (n, e)))
                else:
                    mem = call("members", H.edges.members, e)
                    if mem is not None and n not in mem:
                        errs.append(("membership-without-member", "node %r edge %r" % (n, e)))
            a = call("node-attr", H.nodes.__getitem__, n)
            if a is not None and not isinstance(a, dict):
                errs.append(("node-attr-not-dict", repr(n)))
    # None must never become an ID
    if None in nodeset:
        errs.append(("None-is-a-node", ""))
    if None in edgeset:
        errs.append(("None-is-an-edge", ""))
    # exactly one attribute record per ID (white-box supplement: orphans are invisible in the views)
    if set(H._node_attr) != set(H._node) or len(H._node_attr) != len(H._node):
        errs.append(("node-attr-records-mismatch", "%r vs %r" % (sorted(map(repr, H._node_attr)), sorted(map(repr, H._node)))))
    if set(H._edge_attr) != set(H._edge) or len(H._edge_attr) != len(H._edge):
        errs.append(("edge-attr-records-mismatch", "%r vs %r" % (sorted(map(repr, H._edge_attr)), sorted(map(repr, H._edge)))))
    return errs


def stats_consistency(H):
    """degree == |memberships|, size == |members| (and directed analogues); list of (tag, detail)"""
    errs = []
    try:
        if isinstance(H, xgi.DiHypergraph):
            dms = H.nodes.dimemberships()
            dmem = H.edges.dimembers(dtype=dict)
            ind, outd, deg = H.nodes.in_degree.asdict(), H.nodes.out_degree.asdict(), H.nodes.degree.asdict()
            hs, ts, sz = H.edges.head_size.asdict(), H.edges.tail_size.asdict(), H.edges.size.asdict()
            for n, (i, o) in dms.items():
                if ind[n] != len(i) or outd[n] != len(o) or deg[n] != len(i | o):
                    errs.append(("di-degree", "node %r" % (n,)))
            for e, (t, h) in dmem.items():
                if hs[e] != len(h) or ts[e] != len(t) or sz[e] != len(t | h):
                    errs.append(("di-size", "edge %r" % (e,)))
        else:
            ms = H.nodes.memberships()
            mem = H.edges.members(dtype=dict)
            deg = H.nodes.degree.asdict()
            sz = H.edges.size.asdict()
            for n in ms:
                if deg[n] != len(ms[n]):
                    errs.append(("degree", "node %r degree %r memberships %r" % (n, deg[n], ms[n])))
            for e in mem:
                if sz[e] != len(mem[e]):
                    errs.append(("size", "edge %r" % (e,)))
            if list(deg) != list(H.nodes) or list(sz) != list(H.edges):
                errs.append(("stat-keys", ""))
    except Exception as e:  # noqa: BLE001
        errs.append(("stats-raise", repr(e)))
    return errs


def sc_closure_errors(S, max_report=3):
    """downward closure / duplicate / empty checks for a SimplicialComplex"""
    errs = []
    mem = S.edges.members(dtype=dict)
    fam = {}
    for e, m in mem.items():
        fs = frozenset(m)
        if not fs:
            errs.append(("empty-simplex", repr(e)))
        if fs in fam:
            errs.append(("duplicate-simplex", "%r and %r = %r" % (fam[fs], e, sorted(map(repr, fs)))))
        fam[fs] = e
    for fs in list(fam):
        if len(fs) <= 2:
            continue
        missing = 0
        for r in range(2, len(fs)):
            for sub in itertools.combinations(fs, r):
                if frozenset(sub) not in fam:
                    missing += 1
                    if missing <= max_report:
                        errs.append(("not-downward-closed", "%r of %r missing" % (sorted(map(repr, sub)), sorted(map(repr, fs)))))
    return errs


# --------------------------------------------------------------------------------------------
# JSON network specs:  {"cls": "H"|"DH"|"SC", "kind":..., "nodes": [[label, attrs]...],
#                       "edges": [[id|None, members, attrs]] or [[id|None, tail, head, attrs]], "net": attrs}


def id_schemes(n_edges_max=8):
    """strategy for a list of distinct edge IDs of length k (or None = automatic)"""
    pass


@st.composite
def net_spec(
    draw,
    cls=None,
    kind=None,
    max_edges=6,
    max_size=4,
    min_size=1,
    allow_empty=False,
    allow_dups=True,
    with_attrs=True,
    nested=False,
    ids=None,
    min_edges=0,
    orderable_ids=False,
    tuples=False,
    wide_labels=False,
    float_ids=False,
    big_ids=False,
):
    cls = cls or draw(st.sampled_from(["H", "DH", "SC"]))
    kind = kind or draw((spec_kinds if wide_labels == "mixed" else spec_kinds_unmixed) if wide_labels else kinds)
    alph = SPEC_KINDS[kind] if kind in SPEC_KINDS else EXTRA_KINDS[kind]
    a = attrs(nested=nested, tuples=tuples) if with_attrs else st.just({})
    # isolated / pre-inserted nodes in a drawn order
    # one spec in ten (where empty edges are allowed at all) is degenerate: no nodes, only empty edges and network attributes -
    # a network whose len() is 0 although it is not blank
    degenerate = allow_empty and cls != "SC" and draw(st.integers(0, 9)) == 0
    pre = [] if degenerate else draw(st.lists(st.sampled_from(alph), max_size=4, unique=True))
    nodes = [[n, draw(a)] for n in pre]
    k = draw(st.integers(min_edges, max_edges))
    scheme = ids or draw(st.sampled_from(["auto", "auto", "perm", "gap", "str", "mixed", "zero-desc"]))
    if orderable_ids and scheme == "mixed":
        scheme = "gap"
    if float_ids and ids is None and draw(st.integers(0, 5)) == 0:
        scheme = "float"  # integer-valued floats: the same dict keys as the ints, but not instances of int
    if big_ids and ids is None and draw(st.integers(0, 7)) == 0:
        scheme = "big"  # consecutive ints from 2**53 on: float() rounds every second one (IDs from a hash or a nanosecond clock)
    if scheme == "auto":
        eids = [None] * k
    elif scheme == "perm":
        eids = draw(st.permutations(list(range(k))))
    elif scheme == "gap":
        eids = draw(st.lists(st.integers(0, 30), min_size=k, max_size=k, unique=True))
    elif scheme == "str":
        eids = draw(st.lists(st.sampled_from(["x", "y", "e1", "e2", "e10", "3", "0", "k", "m", "q"]), min_size=k, max_size=k, unique=True))
    elif scheme == "big":
        eids = [2**53 + i for i in range(k)]
    elif scheme == "float":
        eids = [float(i) for i in draw(st.permutations(list(range(k))))]
    elif scheme == "zero-desc":
        eids = sorted(draw(st.lists(st.integers(0, 12), min_size=k, max_size=k, unique=True)), reverse=True)
    else:
        eids = draw(st.lists(st.sampled_from([0, 1, 2, 5, 9, "x", "y", "7"]), min_size=k, max_size=k, unique=True))
    edges = []
    seen = set()
    lo = 0 if allow_empty else max(1, min_size)
    # in half of the specs the edges use only part of the alphabet, so that pre-inserted nodes stay isolated
    ealph = alph if (len(alph) <= 3 or draw(st.booleans())) else alph[: max(3, (len(alph) + 1) // 2)]
    for i in range(k):
        if degenerate:
            edges.append([eids[i], [], [], draw(a)] if cls == "DH" else [eids[i], [], draw(a)])
        elif cls == "DH":
            tail = draw(st.lists(st.sampled_from(ealph), min_size=0, max_size=3, unique=True))
            head = draw(st.lists(st.sampled_from(ealph), min_size=0 if (allow_empty or tail) else 1, max_size=3, unique=True))
            if tail and draw(st.integers(0, 5)) == 0:
                head = list(tail)  # a loop: tail == head
            edges.append([eids[i], tail, head, draw(a)])
        else:
            m = draw(st.lists(st.sampled_from(ealph), min_size=lo, max_size=min(max_size, len(ealph)), unique=True))
            if cls == "SC" and not m:
                continue
            if (not allow_dups or cls == "SC") and frozenset(m) in seen:
                continue
            seen.add(frozenset(m))
            edges.append([eids[i], m, draw(a)])
    return {"cls": cls, "kind": kind, "nodes": nodes, "edges": edges, "net": draw(a)}


def awkward_attr_names(H):
    """attribute names that coincide with parameter names of the adders (settable through the attribute setters only)"""
    ns, es = list(H.nodes), list(H.edges)
    if ns:
        H.set_node_attributes({ns[0]: {"node": 1, "idx": "i", "attr": 2}})
    if es:
        H.set_edge_attributes({es[-1]: {"members": 1, "idx": "i", "edge": 2, "id": 3}})
    # network attributes named like constructor parameters
    H["incoming_data"] = None
    H["attr"] = 1


def build(spec):
    """construct the network of a spec through the public adders (nodes first, then edges in order)"""
    cls = spec["cls"]
    net = realise(spec.get("net", {}))
    if cls == "H":
        H = xgi.Hypergraph(**net)
    elif cls == "DH":
        H = xgi.DiHypergraph(**net)
    else:
        H = xgi.SimplicialComplex(**net)
    for n, a in spec["nodes"]:
        H.add_node(n, **realise(a))
    for e in spec["edges"]:
        if cls == "DH":
            idx, tail, head, a = e
            H.add_edge((list(tail), list(head)), idx=idx, **realise(a))
        elif cls == "SC":
            idx, m, a = e
            H.add_simplex(list(m), idx=idx, **realise(a))
        else:
            idx, m, a = e
            H.add_edge(list(m), idx=idx, **realise(a))
    return H


def clone(H):
    """independent clone that does not go through the library's copy(): pickle round trip"""
    return pickle.loads(pickle.dumps(H))


def min_eig(M):
    """smallest eigenvalue of the symmetric part of M; -inf when M is not finite or the solver gives up (never an exception)"""
    M = np.asarray(M, float)
    if M.size == 0:
        return 0.0
    if not np.all(np.isfinite(M)):
        return float("-inf")
    try:
        return float(np.linalg.eigvalsh((M + M.T) / 2).min())
    except np.linalg.LinAlgError:
        return float("-inf")


def small_edit(H, no_duplicates=False):
    """One in-place structural edit of H through the public mutators (returns a description, or None when nothing applies).
    Used by the oracles of read-only functions: they evaluate, edit the *same object*, and evaluate again, so that nothing
    a function remembered about the earlier state can survive unnoticed. For Hypergraph / DiHypergraph the edit keeps the
    number of nodes and of edges."""
    if isinstance(H, xgi.SimplicialComplex):
        ns = list(H.nodes)
        for tri in itertools.combinations(ns, 3):  # a new triangle brings new faces with it
            if not H.has_simplex(list(tri)):
                H.add_simplex(list(tri))
                return ("add_simplex",) + tri
        for a, b in itertools.combinations(ns, 2):
            if not H.has_simplex([a, b]):
                H.add_simplex([a, b])
                return ("add_simplex", a, b)
        if ns:
            H.add_simplex([ns[0], "__new__"])
            return ("add_simplex", ns[0], "__new__")
        return None
    if isinstance(H, xgi.DiHypergraph):
        for e, (t, h) in H.edges.dimembers(dtype=dict).items():
            for v in H.nodes:
                if v not in t:
                    H.add_node_to_edge(e, v, "in")
                    return ("add_node_to_edge", e, v, "in")
        return None
    mem = {e: frozenset(m) for e, m in H.edges.members(dtype=dict).items()}
    have = set(mem.values())
    for e, m in mem.items():
        for v in H.nodes:
            if v not in m and not (no_duplicates and (m | {v}) in have):
                H.add_node_to_edge(e, v)
                return ("add_node_to_edge", e, v)
    for e, m in mem.items():
        if len(m) >= 2:
            for v in sorted(m, key=repr):
                if not (no_duplicates and (m - {v}) in have):
                    H.remove_node_from_edge(e, v, remove_empty=False)
                    return ("remove_node_from_edge", e, v)
    return None


def bunch(ids):
    """the ID list of a bulk removal as a list, a tuple or a one-shot iterator ("list or iterable of hashables"); the form is a
    pure function of the op, so a replay uses the same one"""
    ids = list(ids)
    form = len(repr(ids)) % 3
    return ids if form == 0 else (tuple(ids) if form == 1 else iter(ids))


def scribble_after(c):
    """the caller goes on using the container it passed in: a network must not be affected (it has to keep its own copy)"""
    try:
        if isinstance(c, set):
            c.add("__after_the_call__")
        elif isinstance(c, list):
            c.append("__after_the_call__")
        elif isinstance(c, dict):
            c["__after_the_call__"] = 1
    except Exception:  # noqa: BLE001
        pass


def shadow_stat_names(H):
    """ordinary string-named attributes that happen to be called like statistics: a name handed to filterby() and friends
    means the statistic, whatever attributes the elements carry"""
    ns, es = list(H.nodes), list(H.edges)
    for i, n in enumerate(ns):
        H.nodes[n].update({"degree": 40 + i, "size": 7})
    for i, e in enumerate(es):
        H.edges[e].update({"order": 30 + i, "size": 50 + i, "degree": 1})
