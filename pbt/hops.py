"""Hypergraph edit alphabet: op strategies (JSON), interpreter against xgi, and the
documentation-transcribed reference model used by C05 (C01, C06, C07 reuse the alphabet)."""

import collections
import copy
import random

import numpy as np
import pandas as pd
from hypothesis import strategies as st

import xgi

from . import nets
from .nets import CTYPES, attrs, container, eid_literal, eid_ref, members_of, node_of

# --------------------------------------------------------------------------------------------
# strategies


def op_strategy(kind, none_p=True, bulk_empty=True, heavy=True, only=None):
    """strategy for one JSON op.  none_p: None may appear among members / as IDs;
    bulk_empty: empty member lists may appear in bulk adders (docs contradict the code there)."""
    n = node_of(kind)
    n_or_none = st.one_of(n, n, n, n, n, n, n, n, st.none()) if none_p else n
    e = eid_ref
    # for operations that only do something on an existing edge: mostly IDs that exist right now
    ex = st.one_of(nets.eid_existing, nets.eid_existing, nets.eid_existing, eid_ref)
    e_or_none = st.one_of(e, e, e, e, e, e, e, e, st.none()) if none_p else e
    a = attrs()
    mem = members_of(kind, 0, 5, none_p)
    mem1 = members_of(kind, 0 if bulk_empty else 1, 4, none_p)
    b = st.booleans()
    ct = st.sampled_from(CTYPES)
    ct2 = st.sampled_from(["list", "tuple", "set", "frozenset", "iter"])  # one-shot iterators too: "an iterable of node IDs"
    outer = st.sampled_from(["list", "tuple", "gen"])

    # an explicit ID in a bulk format may be None (one in fifteen): it must be refused like a None member
    eb = st.one_of([e] * 14 + [st.none()]) if none_p else e

    def bulk(fmt):
        if fmt == 1:
            items = st.lists(st.tuples(mem1, ct2).map(list), max_size=3)
        elif fmt == 2:
            items = st.lists(st.tuples(mem1, ct2, eb).map(list), max_size=3)
        elif fmt == 3:
            items = st.lists(st.tuples(mem1, ct2, a).map(list), max_size=3)
        elif fmt == 4:
            items = st.lists(st.tuples(mem1, ct2, eb, a).map(list), max_size=3)
        else:
            items = st.lists(st.tuples(eb, mem1, ct2).map(list), max_size=3)
        if fmt == 5:
            # ... or IDs at / above the counter in decreasing order (the largest comes first)
            desc = st.tuples(mem1, ct2, mem1, ct2).map(lambda t: [[["+", 3], t[0], t[1]], [["+", 0], t[2], t[3]]])
            items = st.one_of(items, items, desc)
        return st.tuples(st.just("add_edges_from"), st.just(fmt), items, a, outer).map(list)

    setattr_modes = lambda key: st.one_of(  # noqa: E731
        st.tuples(st.just("const"), nets.attr_value, st.sampled_from(["color", "w"])),
        st.tuples(st.just("dict"), st.lists(st.tuples(key, nets.attr_value).map(list), max_size=3), st.sampled_from(["w", "tag"])),
        st.tuples(st.just("dod"), st.lists(st.tuples(key, a).map(list), max_size=3), st.none()),
    )
    nm = st.one_of(n, st.tuples(st.just("@"), st.integers(0, 5)).map(list))  # a label, or ['@', j] = j-th member of the op's edge
    ops = [
        (3, "add_node", st.tuples(st.just("add_node"), n_or_none, a).map(list)),
        (2, "add_nodes_from", st.tuples(st.just("add_nodes_from"), st.lists(st.one_of(n, st.tuples(n, a).map(list)), max_size=3), a).map(list)),
        (4, "remove_node", st.tuples(st.just("remove_node"), n, b, b).map(list)),
        (2, "remove_nodes_from", st.tuples(st.just("remove_nodes_from"), st.lists(n, max_size=3), b, b).map(list)),
        (2, "set_node_attributes", setattr_modes(n).map(lambda t: ["set_node_attributes"] + list(t))),
        (7, "add_edge", st.tuples(st.just("add_edge"), mem, ct, st.none(), a).map(list)),
        (5, "add_edge", st.tuples(st.just("add_edge"), mem, ct, e, a).map(list)),
        # ['=', k]: the members of the k-th existing edge (a duplicate edge on purpose), under a drawn ID
        (3, "add_edge", st.tuples(st.just("add_edge"), st.tuples(st.just("="), st.integers(0, 11)).map(list), ct, st.one_of(st.none(), e), a).map(list)),
        (2, "add_edges_from", bulk(1)),
        (2, "add_edges_from", bulk(2)),
        (2, "add_edges_from", bulk(3)),
        (2, "add_edges_from", bulk(4)),
        (2, "add_edges_from", bulk(5)),
        (1, "add_weighted_edges_from", st.tuples(st.just("add_weighted_edges_from"), st.lists(st.tuples(members_of(kind, 1, 3, none_p), st.sampled_from([0.5, 2, 3.0])).map(list), max_size=2), st.sampled_from(["weight", "w"]), a.map(lambda d: {k: v for k, v in d.items() if k != "weight"})).map(list)),
        # a custom weight name together with a keyword attribute of the same name: the per-edge weight takes precedence
        (1, "add_weighted_edges_from", st.tuples(st.just("add_weighted_edges_from"), st.lists(st.tuples(members_of(kind, 1, 3, none_p), st.sampled_from([0.5, 2, 3.0])).map(list), min_size=1, max_size=2), st.just("w"),
                                                 a.map(lambda d: dict({k: v for k, v in d.items() if k != "weight"}, w=7))).map(list)),
        (2, "set_edge_attributes", setattr_modes(ex).map(lambda t: ["set_edge_attributes"] + list(t))),
        (3, "double_edge_swap", st.tuples(st.just("double_edge_swap"), nm, nm, ex, ex).map(list)),
        (1, "double_edge_swap", st.tuples(st.just("double_edge_swap"), nm, st.just(["same"]), ex, ex).map(list)),  # one node named twice
        (1, "double_edge_swap", st.tuples(st.just("double_edge_swap"), nm, nm, ex, st.just(["same-edge"])).map(list)),  # one edge named twice
        # a half-valid swap: the first node is a member of the first (existing) edge, the second an arbitrary label that is mostly
        # not in the second (existing) edge - the call must fail without having started the swap
        (2, "double_edge_swap", st.tuples(st.just("double_edge_swap"), st.tuples(st.just("@"), st.integers(0, 5)).map(list), n, nets.eid_existing, nets.eid_existing).map(list)),
        (2, "random_edge_shuffle", st.tuples(st.just("random_edge_shuffle"), ex, ex, st.integers(0, 10**6)).map(list)),
        (1, "random_edge_shuffle", st.tuples(st.just("random_edge_shuffle"), st.none(), st.none(), st.integers(0, 10**6)).map(list)),
        (4, "add_node_to_edge", st.tuples(st.just("add_node_to_edge"), e_or_none, n_or_none).map(list)),
        (3, "add_node_to_edge", st.tuples(st.just("add_node_to_edge"), ex, n_or_none).map(list)),  # mostly an existing edge (possibly an emptied one)
        (3, "remove_edge", st.tuples(st.just("remove_edge"), ex).map(list)),
        (4, "remove_edges_from", st.tuples(st.just("remove_edges_from"), nets.eid_removal_list).map(list)),
        (4, "remove_node_from_edge", st.tuples(st.just("remove_node_from_edge"), ex, nm, b).map(list)),
        (1, "update", st.tuples(st.just("update"), st.one_of(st.none(), st.lists(members_of(kind, 1, 3, False), max_size=2)), st.one_of(st.none(), st.lists(n, max_size=2))).map(list)),
        (1, "set_net_attr", st.tuples(st.just("set_net_attr"), st.sampled_from(["name", "tag"]), nets.attr_value).map(list)),
        (7, "merge_duplicate_edges", st.tuples(st.just("merge_duplicate_edges"), st.sampled_from(["first", "first", "tuple", "tuple", "new"]), st.sampled_from(["first", "union", "intersection"]), st.sampled_from([None, "mult"])).map(list)),
    ]
    if heavy:
        ops += [
            (0.4, "clear", st.tuples(st.just("clear"), b).map(list)),
            (0.4, "clear_edges", st.just(["clear_edges"])),
            (1, "cleanup", st.tuples(st.just("cleanup"), b, b, b, b, b).map(list)),
            (0.7, "convert_labels_to_integers", st.tuples(st.just("convert_labels_to_integers"), st.sampled_from(["label", "old"])).map(list)),
            (0.7, "largest_connected_hypergraph", st.just(["largest_connected_hypergraph"])),
        ]
    # weights -> repeat entries (st.one_of has no weights); 0.x weights get one slot among 10x others
    pool = []
    for w, nm, s in ops:
        if only is None or nm in only:
            pool += [s] * max(1, int(round(w * 2)))
    return st.one_of(pool)


def init_strategy(kind):
    """how the start network is constructed (constructor input types of Hypergraph)"""
    n = node_of(kind)
    mem = st.lists(n, min_size=1, max_size=4)
    return st.one_of(
        st.just(["empty"]),
        st.tuples(st.just("edgelist"), st.lists(mem, max_size=4)).map(list),
        st.tuples(st.just("edgelist"), st.lists(mem, min_size=3, max_size=6)).map(list),  # start networks with several edges: most operations need two
        st.tuples(st.just("edgedict"), st.lists(st.tuples(eid_literal, mem).map(list), max_size=4, unique_by=lambda t: repr(t[0]))).map(list),
        st.tuples(st.just("edgedict"), st.lists(st.tuples(eid_literal, mem).map(list), min_size=3, max_size=6, unique_by=lambda t: repr(t[0]))).map(list),
        st.tuples(st.just("df"), st.lists(st.tuples(n, eid_literal).map(list), max_size=6)).map(list),
        st.tuples(st.just("inc"), st.integers(1, 4), st.integers(1, 4), st.lists(st.integers(0, 1), min_size=16, max_size=16)).map(list),
        st.tuples(st.just("copyof"), st.lists(st.tuples(eid_literal, mem).map(list), max_size=3, unique_by=lambda t: repr(t[0]))).map(list),
        # a network that went through a tuple-renaming merge and then re-used the freed IDs for new duplicates
        st.tuples(st.just("after-merge"), mem, mem).map(list),
        st.tuples(st.just("after-merge"), mem, mem).map(list),
        # a network holding an edge that carries attributes and was emptied (kept with remove_empty=False)
        st.tuples(st.just("emptied-edge"), mem, mem).map(list),
        # a fresh network whose only edge was added singly under a falsy explicit ID (0, 0.0, numpy 0): the counter must have moved
        st.tuples(st.just("first-explicit"), mem, st.sampled_from(["int", "int", "float", "npint"])).map(list),
    )


def make_init(init):
    t = init[0]
    if t == "empty":
        return xgi.Hypergraph()
    if t == "edgelist":
        return xgi.Hypergraph([list(m) for m in init[1]])
    if t == "edgedict":
        return xgi.Hypergraph({k: list(m) for k, m in init[1]})
    if t == "df":
        rows = init[1]
        df = pd.DataFrame({"n": [r[0] for r in rows], "e": [r[1] for r in rows]}, dtype=object)
        return xgi.Hypergraph(df)
    if t == "inc":
        r, c, bits = init[1], init[2], init[3]
        I = np.array(bits[: r * c]).reshape(r, c)
        return xgi.Hypergraph(I)
    if t == "copyof":
        return xgi.Hypergraph(xgi.Hypergraph({k: list(m) for k, m in init[1]}))
    if t == "emptied-edge":
        H = xgi.Hypergraph()
        H.add_edge(list(init[1]), idx="kept", color="blue", w=2.5)
        H.add_edge(list(init[2]))
        for v in list(H.edges.members("kept")):
            H.remove_node_from_edge("kept", v, remove_empty=False)
        return H
    if t == "first-explicit":
        H = xgi.Hypergraph()
        H.add_edge(list(init[1]), idx=nets.ZERO[init[2]])
        return H
    if t == "after-merge":
        H = xgi.Hypergraph()
        H.add_edge(list(init[1]), idx=0)
        H.add_edge(list(init[1]), idx=1)
        H.merge_duplicate_edges(rename="tuple")
        H.add_edge(list(init[2]), idx=0)
        H.add_edge(list(init[2]), idx=1)
        return H
    raise ValueError(t)


@st.composite
def history(draw, max_ops=30, none_p=True, bulk_empty=True, heavy=True, kind=None, with_init=True, only=None):
    kind = kind or draw(nets.kinds)
    init = draw(init_strategy(kind)) if with_init else ["empty"]
    ops = draw(nets.op_lists(op_strategy(kind, none_p, bulk_empty, heavy, only), max_ops))
    return {"kind": kind, "init": init, "ops": ops}


# --------------------------------------------------------------------------------------------
# interpreter


def member_ref(H, e, ref, side=None):
    """['@', j] -> j-th member (sorted by repr) of edge e (of its tail/head for a DiHypergraph); else the label itself"""
    if not isinstance(ref, list):
        return ref
    try:
        m = H._edge[e]
    except Exception:  # noqa: BLE001  (missing edge: any label will do, the call is going to be refused)
        return 0
    if isinstance(m, dict):
        m = m["in"] | m["out"] if side is None else m[side]
    m = sorted(m, key=repr)
    return m[ref[1] % len(m)] if m else 0


def concretise(H, op):
    """resolve ['#', k] edge references against the current network -> concrete op"""
    name = op[0]
    r = lambda x: nets.resolve_eid(H, x)  # noqa: E731
    op = copy.deepcopy(op)
    if name == "add_edge":
        op[3] = r(op[3])
        if len(op[1]) == 2 and op[1][0] == "=" and isinstance(op[1][1], int):
            ms = list(H._edge.values())
            op[1] = sorted(ms[op[1][1] % len(ms)], key=repr) if ms else [0]
    elif name == "add_edges_from":
        fmt = op[1]
        for it in op[2]:
            if fmt in (2, 4):
                it[2] = r(it[2])
            elif fmt == 5:
                it[0] = r(it[0])
    elif name == "set_edge_attributes" and op[1] in ("dict", "dod"):
        for it in op[2]:
            it[0] = r(it[0])
    elif name == "double_edge_swap":
        op[3] = r(op[3])
        op[4] = op[3] if op[4] == ["same-edge"] else r(op[4])
        same = op[2] == ["same"]  # the same node named twice (picked among the common members of the two edges when there are any)
        if same:
            try:
                common = sorted(set(H._edge[op[3]]) & set(H._edge[op[4]]), key=repr)
            except Exception:  # noqa: BLE001
                common = []
            if common and isinstance(op[1], list):
                op[1] = common[op[1][1] % len(common)]
        op[1] = member_ref(H, op[3], op[1])
        op[2] = op[1] if same else member_ref(H, op[4], op[2])
    elif name == "random_edge_shuffle":
        if op[1] is not None:
            op[1], op[2] = r(op[1]), r(op[2])
    elif name in ("add_node_to_edge", "remove_edge", "remove_node_from_edge"):
        op[1] = r(op[1])
        if name == "remove_node_from_edge":
            op[2] = member_ref(H, op[1], op[2])
    elif name == "remove_edges_from":
        op[1] = [r(x) for x in op[1]]
    return op


def _outer(kind, items):
    if kind == "list":
        return list(items)
    if kind == "tuple":
        return tuple(items)
    return (x for x in items)


def bulk_arg(op):
    fmt, items, outer = op[1], op[2], op[4]
    if fmt == 1:
        return _outer(outer, [container(ct, m) for m, ct in items])
    if fmt == 2:
        return _outer(outer, [(container(ct, m), i) for m, ct, i in items])
    if fmt == 3:
        return _outer(outer, [(container(ct, m), copy.deepcopy(a)) for m, ct, a in items])
    if fmt == 4:
        return _outer(outer, [(container(ct, m), i, copy.deepcopy(a)) for m, ct, i, a in items])
    return {i: container(ct, m) for i, m, ct in items}


def setattr_arg(op):
    mode, payload = op[1], op[2]
    if mode == "const":
        return payload
    if mode == "dict":
        return {k: v for k, v in payload}
    return {k: copy.deepcopy(v) for k, v in payload}


def apply_real(H, op):
    """apply a *concrete* op to the xgi Hypergraph"""
    name = op[0]
    if name == "add_node":
        H.add_node(op[1], **op[2])
    elif name == "add_nodes_from":
        H.add_nodes_from([tuple(x) if isinstance(x, list) else x for x in copy.deepcopy(op[1])], **op[2])
    elif name == "remove_node":
        H.remove_node(op[1], strong=op[2], remove_empty=op[3])
    elif name == "remove_nodes_from":
        H.remove_nodes_from(nets.bunch(op[1]), strong=op[2], remove_empty=op[3])
    elif name == "set_node_attributes":
        H.set_node_attributes(setattr_arg(op), name=op[3])
    elif name == "add_edge":
        c = container(op[2], op[1])
        try:
            H.add_edge(c, idx=op[3], **copy.deepcopy(op[4]))
        finally:
            nets.scribble_after(c)
    elif name == "add_edges_from":
        H.add_edges_from(bulk_arg(op), **copy.deepcopy(op[3]))
    elif name == "add_weighted_edges_from":
        H.add_weighted_edges_from([tuple(m) + (w,) for m, w in op[1]], weight=op[2], **copy.deepcopy(op[3]))
    elif name == "set_edge_attributes":
        H.set_edge_attributes(setattr_arg(op), name=op[3])
    elif name == "double_edge_swap":
        H.double_edge_swap(op[1], op[2], op[3], op[4])
    elif name == "random_edge_shuffle":
        random.seed(op[3])
        if op[1] is None:
            H.random_edge_shuffle()
        else:
            H.random_edge_shuffle(op[1], op[2])
    elif name == "add_node_to_edge":
        H.add_node_to_edge(op[1], op[2])
    elif name == "remove_edge":
        H.remove_edge(op[1])
    elif name == "remove_edges_from":
        H.remove_edges_from(nets.bunch(op[1]))
    elif name == "remove_node_from_edge":
        H.remove_node_from_edge(op[1], op[2], remove_empty=op[3])
    elif name == "update":
        H.update(edges=None if op[1] is None else [list(m) for m in op[1]], nodes=None if op[2] is None else list(op[2]))
    elif name == "set_net_attr":
        H[op[1]] = op[2]
    elif name == "clear":
        H.clear(remove_net_attr=op[1])
    elif name == "clear_edges":
        H.clear_edges()
    elif name == "merge_duplicate_edges":
        H.merge_duplicate_edges(rename=op[1], merge_rule=op[2], multiplicity=op[3])
    elif name == "cleanup":
        H.cleanup(isolates=op[1], singletons=op[2], multiedges=op[3], connected=op[4], relabel=op[5], in_place=True)
    elif name == "convert_labels_to_integers":
        xgi.convert_labels_to_integers(H, label_attribute=op[1], in_place=True)
    elif name == "largest_connected_hypergraph":
        xgi.largest_connected_hypergraph(H, in_place=True)
    else:
        raise ValueError(name)


EDGE_CREATING = {"add_edge", "add_edges_from", "add_weighted_edges_from", "add_node_to_edge", "update"}
REMOVING = {
    "remove_node",
    "remove_nodes_from",
    "remove_edge",
    "remove_edges_from",
    "remove_node_from_edge",
    "double_edge_swap",
    "random_edge_shuffle",
    "merge_duplicate_edges",
    "cleanup",
    "clear",
    "clear_edges",
    "largest_connected_hypergraph",
    "convert_labels_to_integers",
}

# --------------------------------------------------------------------------------------------
# reference model (written from the docstrings; see DESIGN.md C05)


class Reject(Exception):
    """the documentation says this edit is refused with the library's own error"""


class NeedFresh(Exception):
    pass


class Model:
    def __init__(self):
        self.nodes = {}  # node -> attrs  (insertion ordered)
        self.edges = {}  # id -> [set members, attrs]
        self.net = {}

    @classmethod
    def of(cls, H):
        M = cls()
        o = nets.snap_obs(H)
        M.nodes = {n: copy.deepcopy(o[1][n]) for n in o[0]}
        M.edges = {e: [set(o[3][e]), copy.deepcopy(o[4][e])] for e in o[2]}
        M.net = copy.deepcopy(o[5])
        return M

    def snap(self):
        return (
            list(self.nodes),
            {n: dict(a) for n, a in self.nodes.items()},
            list(self.edges),
            {e: frozenset(m) for e, (m, a) in self.edges.items()},
            {e: dict(a) for e, (m, a) in self.edges.items()},
            dict(self.net),
        )

    # -- helpers
    def add_edge(self, members, idx, attr, fresh, explicit=False):
        """docs: explicit existing ID -> warn and skip (checked before the members);
        None can never be a node or an edge ID -> refused; otherwise create missing nodes and the edge"""
        members = list(members)
        if idx is not None and idx in self.edges:
            return
        if None in members:
            raise Reject("None member")
        if explicit and idx is None:
            raise Reject("None as an explicit edge ID (bulk formats 2, 4, 5)")
        if idx is None:
            idx = fresh()
        for n in members:
            if n not in self.nodes:
                self.nodes[n] = {}
        self.edges[idx] = [set(members), dict(attr)]

    def remove_node(self, n, strong, rem):
        if n not in self.nodes:
            raise Reject("missing node")
        del self.nodes[n]
        for e in list(self.edges):
            m = self.edges[e][0]
            if n in m:
                if strong:
                    del self.edges[e]
                else:
                    m.discard(n)
                    if not m and rem:
                        del self.edges[e]

    def apply(self, op, fresh):
        name = op[0]
        if name == "add_node":
            if op[1] is None:
                raise Reject("None node")
            self.nodes.setdefault(op[1], {}).update(op[2])
        elif name == "add_nodes_from":
            for x in op[1]:
                if isinstance(x, list):
                    n, d = x
                    a = dict(op[2])
                    a.update(d)  # tuple attrs take precedence over kwargs
                else:
                    n, a = x, dict(op[2])
                self.nodes.setdefault(n, {}).update(a)
        elif name == "remove_node":
            self.remove_node(op[1], op[2], op[3])
        elif name == "remove_nodes_from":
            for n in op[1]:
                if n in self.nodes:  # docs/code: missing nodes are warned about and skipped
                    self.remove_node(n, op[2], op[3])
        elif name in ("set_node_attributes", "set_edge_attributes"):
            tab = self.nodes if name == "set_node_attributes" else {e: v[1] for e, v in self.edges.items()}
            mode, payload, nm = op[1], op[2], op[3]
            if mode != "const":
                payload = list({nets.freeze_val(k): (k, v) for k, v in payload}.values())  # a dict: last value wins
            if mode == "const":
                for k in tab:
                    tab[k][nm] = payload
            elif mode == "dict":
                for k, v in payload:
                    if k in tab:  # unknown IDs are silently ignored
                        tab[k][nm] = v
            else:
                for k, d in payload:
                    if k in tab:
                        tab[k].update(d)
        elif name == "add_edge":
            self.add_edge(op[1], op[3], op[4], fresh)
        elif name == "add_edges_from":
            fmt, items, attr = op[1], op[2], op[3]
            if fmt == 5:  # a dict: a repeated key keeps its first position and its last value
                items = list({nets.freeze_val(it[0]): it for it in items}.values())
            for it in items:
                if fmt == 1:
                    mem, idx, ea = it[0], None, {}
                elif fmt == 2:
                    mem, idx, ea = it[0], it[2], {}
                elif fmt == 3:
                    mem, idx, ea = it[0], None, it[2]
                elif fmt == 4:
                    mem, idx, ea = it[0], it[2], it[3]
                else:
                    mem, idx, ea = it[1], it[0], {}
                a = dict(attr)
                a.update(ea)  # per-edge attrs take precedence over kwargs; kwargs apply to all edges
                self.add_edge(mem, idx, a, fresh, explicit=fmt in (2, 4, 5))
        elif name == "add_weighted_edges_from":
            for mem, w in op[1]:
                a = dict(op[3])
                a[op[2]] = w
                self.add_edge(mem, None, a, fresh)
        elif name == "add_node_to_edge":
            e, n = op[1], op[2]
            if e is None or n is None:
                raise Reject("None id")
            if e not in self.edges:
                self.edges[e] = [set(), {}]
            if n not in self.nodes:
                self.nodes[n] = {}
            self.edges[e][0].add(n)
        elif name == "remove_edge":
            if op[1] not in self.edges:
                raise Reject("missing edge")
            del self.edges[op[1]]
        elif name == "remove_edges_from":
            for e in op[1]:
                if e not in self.edges:
                    raise Reject("missing edge")  # prefix semantics: earlier removals stay
                del self.edges[e]
        elif name == "remove_node_from_edge":
            e, n, rem = op[1], op[2], op[3]
            if e not in self.edges or n not in self.nodes or n not in self.edges[e][0]:
                raise Reject("missing id")
            self.edges[e][0].discard(n)
            if not self.edges[e][0] and rem:
                del self.edges[e]
        elif name == "update":
            if op[2]:
                self.apply(["add_nodes_from", op[2], {}], fresh)
            if op[1]:
                self.apply(["add_edges_from", 1, [[m, "list"] for m in op[1]], {}, "list"], fresh)
        elif name == "set_net_attr":
            self.net[op[1]] = op[2]
        elif name == "clear":
            self.nodes.clear()
            self.edges.clear()
            if op[1]:
                self.net.clear()
        elif name == "clear_edges":
            self.edges.clear()
        elif name == "merge_duplicate_edges":
            rename, rule, mult = op[1], op[2], op[3]
            groups = collections.OrderedDict()
            for e, (m, a) in self.edges.items():
                groups.setdefault(frozenset(m), []).append(e)
            new, dups = [], []
            # the library raises TypeError (mixed-type IDs cannot be ordered) before it changes anything; it may have drawn
            # automatic IDs for earlier groups by then, so every comparison is made here before any automatic ID is asked for
            for m, ids in groups.items():
                if len(ids) > 1:
                    if rule == "first":
                        min(ids)
                    if rename in ("first", "tuple"):
                        sorted(ids)
            for m, ids in groups.items():
                if len(ids) > 1:
                    dups += ids
                    # "sorted duplicate edge IDs": mixed-type IDs make sorted() raise TypeError
                    if rule == "first":
                        min(ids)  # raises for mixed-type IDs before any automatic ID is asked for (the model is parametric in those)
                    if rename == "first":
                        nid = sorted(ids)[0]
                    elif rename == "tuple":
                        nid = tuple(sorted(ids))
                    else:
                        nid = fresh()
                    if rule == "first":
                        at = copy.deepcopy(self.edges[min(ids)][1])
                    else:
                        fields = {f for i in ids for f in self.edges[i][1]}
                        sa = {f: {self.edges[i][1].get(f) for i in ids} for f in fields}
                        at = sa if rule == "union" else {f: (None if len(v) != 1 else next(iter(v))) for f, v in sa.items()}
                    if mult is not None:
                        at[mult] = len(ids)
                    new.append((m, nid, at))
            for e in dups:
                del self.edges[e]
            for m, nid, at in new:
                self.add_edge(m, nid, at, fresh)
        else:
            raise ValueError(name)
