"""python -m pbt.cli <Cxx> [--tier quick|thorough] [--replay FILE]

exit 0: property held on everything explored (KNOWN-FINDING lines possible)
exit 1: at least one `VIOLATION property=<id> replay=<path>` line
exit 2: harness error (never reported as a violation)
"""
import argparse
import os
import sys
import traceback


def main(argv=None):
    ap = argparse.ArgumentParser()
    ap.add_argument("pid")
    ap.add_argument("--tier", default=os.environ.get("VERIF_TIER") or "quick", choices=["quick", "thorough"])
    ap.add_argument("--replay")
    ap.add_argument("--seed", type=int, default=None)
    a = ap.parse_args(argv)
    seed = a.seed if a.seed is not None else int(os.environ.get("VERIF_SEED", "1") or 1)
    from . import engine

    try:
        if a.replay:
            return engine.run_replay(a.pid.upper(), a.replay)
        return engine.run_property(a.pid.upper(), a.tier, seed)
    except engine.HarnessError as e:
        print("HARNESS-ERROR property=%s\n%s" % (a.pid, e), file=sys.stderr)
        return 2
    except Exception:  # noqa: BLE001
        print("HARNESS-ERROR property=%s\n%s" % (a.pid, traceback.format_exc()), file=sys.stderr)
        return 2


if __name__ == "__main__":
    sys.exit(main())
