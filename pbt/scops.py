"""SimplicialComplex edit alphabet: op strategies (JSON), interpreter, reference model, C05 runner."""

import copy
import itertools

from hypothesis import strategies as st

import xgi

from . import nets
from .nets import LIBERR, attrs, eid_literal, eid_ref, node_of


def simplex_of(kind, none_p, max_size=6, unique=False, min_size=0):
    base = st.lists(node_of(kind), min_size=min_size, max_size=max_size, unique=unique)
    if not none_p:
        return base
    return st.one_of(base, base, base, base, base, base, base, base, st.tuples(base, st.integers(0, 5)).map(lambda t: t[0][: t[1]] + [None] + t[0][t[1] :]))


def op_strategy(kind, none_p=True, unique_bulk=False, aliases_plain=True, only=None):
    """unique_bulk: members of bulk-added simplices have no repeated node (C05: what a repeated node
    means under max_order is not documented).  C03 draws repeated nodes too."""
    n = node_of(kind)
    e = eid_ref
    # for operations that only do something on an existing edge: mostly IDs that exist right now
    ex = st.one_of(nets.eid_existing, nets.eid_existing, nets.eid_existing, eid_ref)
    a = attrs()
    b = st.booleans()
    sx = simplex_of(kind, none_p)
    sxb = simplex_of(kind, none_p, unique=unique_bulk, min_size=1 if unique_bulk else 0)
    ct = st.sampled_from(["list", "tuple", "set", "frozenset", "iter"])
    ct2 = st.sampled_from(["list", "tuple", "iter"] if not unique_bulk else ["list", "tuple", "set", "frozenset", "iter"])
    outer = st.sampled_from(["list", "tuple", "gen"])
    mo = st.sampled_from([None, None, None, 0, 1, 2, 3])

    def bulk(fmt, name="add_simplices_from", mo=mo):
        if fmt == 1:
            items = st.lists(st.tuples(sxb, ct2).map(list), max_size=3)
        elif fmt == 2:
            items = st.lists(st.tuples(sxb, ct2, e).map(list), max_size=3)
        elif fmt == 3:
            items = st.lists(st.tuples(sxb, ct2, a).map(list), max_size=3)
        elif fmt == 4:
            items = st.lists(st.tuples(sxb, ct2, e, a).map(list), max_size=3)
        else:
            items = st.lists(st.tuples(e, sxb, ct2).map(list), max_size=3)
        return st.tuples(st.just(name), st.just(fmt), items, a, outer, mo).map(list)

    setattr_modes = lambda key: st.one_of(  # noqa: E731
        st.tuples(st.just("const"), nets.attr_value, st.sampled_from(["color", "w"])),
        st.tuples(st.just("dict"), st.lists(st.tuples(key, nets.attr_value).map(list), max_size=3), st.sampled_from(["w", "tag"])),
        st.tuples(st.just("dod"), st.lists(st.tuples(key, a).map(list), max_size=3), st.none()),
    )
    noweight = a.map(lambda d: {k: v for k, v in d.items() if k != "weight"})
    wb = st.lists(st.tuples(simplex_of(kind, none_p, max_size=4, unique=unique_bulk, min_size=1), st.sampled_from([0.5, 2, 3.0])).map(list), max_size=2)
    ops = [
        (2, "add_node", st.tuples(st.just("add_node"), n, a).map(list)),
        (1, "add_nodes_from", st.tuples(st.just("add_nodes_from"), st.lists(st.one_of(n, st.tuples(n, a).map(list)), max_size=3), a).map(list)),
        (4, "remove_node", st.tuples(st.just("remove_node"), n).map(list)),
        (2, "remove_nodes_from", st.tuples(st.just("remove_nodes_from"), st.lists(n, max_size=3)).map(list)),
        (1, "set_node_attributes", setattr_modes(n).map(lambda t: ["set_node_attributes"] + list(t))),
        (8, "add_simplex", st.tuples(st.just("add_simplex"), sx, ct, st.none(), a).map(list)),
        (5, "add_simplex", st.tuples(st.just("add_simplex"), sx, ct, e, a).map(list)),
        (3, "add_simplices_from", bulk(1)),
        (2, "add_simplices_from", bulk(2)),
        (2, "add_simplices_from", bulk(3)),
        (2, "add_simplices_from", bulk(4)),
        (2, "add_simplices_from", bulk(5)),
        (1, "add_weighted_simplices_from", st.tuples(st.just("add_weighted_simplices_from"), wb, st.sampled_from(["weight", "w"]), noweight, mo).map(list)),
        (1, "set_edge_attributes", setattr_modes(ex).map(lambda t: ["set_edge_attributes"] + list(t))),
        (6, "remove_simplex_id", st.tuples(st.just("remove_simplex_id"), ex).map(list)),
        (3, "remove_simplex_ids_from", st.tuples(st.just("remove_simplex_ids_from"), nets.eid_removal_list).map(list)),
        (1, "close", st.just(["close"])),
        (2, "cleanup", st.tuples(st.just("cleanup"), b, b, b).map(list)),
        (0.5, "clear", st.tuples(st.just("clear"), b).map(list)),
        # deprecated aliases (documented only as "use X instead": drawn with the arguments both share)
        (1, "add_edge", st.tuples(st.just("add_edge"), sx, ct, st.none(), a).map(list)),
        (1, "add_edges_from", bulk(1, "add_edges_from", st.none())),
        (1, "add_edges_from", bulk(4, "add_edges_from", st.none())),
        (1, "remove_edge", st.tuples(st.just("remove_edge"), ex).map(list)),
        (1, "remove_edges_from", st.tuples(st.just("remove_edges_from"), nets.eid_removal_list).map(list)),
        (0.5, "add_weighted_edges_from", st.tuples(st.just("add_weighted_edges_from"), wb, st.sampled_from(["weight", "w"]), noweight, mo).map(list)),
    ]
    pool = []
    for w, nm, s in ops:
        if only is None or nm in only:
            pool += [s] * max(1, int(round(w * 2)))
    return st.one_of(pool)


def init_strategy(kind):
    n = node_of(kind)
    sx = st.lists(n, min_size=1, max_size=4, unique=True)
    return st.one_of(
        st.just(["empty"]),
        st.tuples(st.just("list"), st.lists(sx, max_size=3)).map(list),
        st.tuples(st.just("list"), st.lists(sx, min_size=2, max_size=4)).map(list),  # start complexes with several simplices
        st.tuples(st.just("dict"), st.lists(st.tuples(eid_literal, sx).map(list), max_size=3, unique_by=lambda t: repr(t[0]))).map(list),
        # only string IDs: more simplices than the automatic-ID counter has seen
        st.tuples(st.just("dict"), st.lists(st.tuples(st.sampled_from(["x", "y", "e1", "k"]), sx).map(list), min_size=1, max_size=3, unique_by=lambda t: repr(t[0]))).map(list),
        st.tuples(st.just("hg"), st.lists(st.tuples(eid_literal, sx).map(list), max_size=3, unique_by=lambda t: repr(t[0]))).map(list),
        # a fresh complex whose first simplex was added singly under a falsy explicit ID (0, 0.0, numpy 0)
        st.tuples(st.just("first-explicit"), sx, st.sampled_from(["int", "int", "float", "npint"])).map(list),
    )


def make_init(init):
    t = init[0]
    if t == "empty":
        return xgi.SimplicialComplex()
    if t == "list":
        return xgi.SimplicialComplex([list(m) for m in init[1]])
    if t == "dict":
        return xgi.SimplicialComplex({k: list(m) for k, m in init[1]})
    if t == "hg":
        return xgi.SimplicialComplex(xgi.Hypergraph({k: list(m) for k, m in init[1]}))
    if t == "first-explicit":
        S = xgi.SimplicialComplex()
        S.add_simplex(list(init[1]), idx=nets.ZERO[init[2]])
        return S
    raise ValueError(t)


@st.composite
def history(draw, max_ops=30, none_p=True, kind=None, unique_bulk=True):
    kind = kind or draw(nets.kinds)
    return {"kind": kind, "init": draw(init_strategy(kind)), "ops": draw(nets.op_lists(op_strategy(kind, none_p, unique_bulk), max_ops))}


BULK = ("add_simplices_from", "add_edges_from")
WEIGHTED = ("add_weighted_simplices_from", "add_weighted_edges_from")


def concretise(S, op):
    r = lambda x: nets.resolve_eid(S, x)  # noqa: E731
    op = copy.deepcopy(op)
    name = op[0]
    if name == "add_simplex":
        op[3] = r(op[3])
    elif name in BULK:
        fmt = op[1]
        for it in op[2]:
            if fmt in (2, 4):
                it[2] = r(it[2])
            elif fmt == 5:
                it[0] = r(it[0])
    elif name == "set_edge_attributes" and op[1] in ("dict", "dod"):
        for it in op[2]:
            it[0] = r(it[0])
    elif name in ("remove_simplex_id", "remove_edge"):
        op[1] = r(op[1])
    elif name in ("remove_simplex_ids_from", "remove_edges_from"):
        op[1] = [r(x) for x in op[1]]
    return op


def apply_real(S, op):
    from .hops import bulk_arg, setattr_arg

    name = op[0]
    if name == "add_node":
        S.add_node(op[1], **op[2])
    elif name == "add_nodes_from":
        S.add_nodes_from([tuple(x) if isinstance(x, list) else x for x in copy.deepcopy(op[1])], **op[2])
    elif name == "remove_node":
        S.remove_node(op[1])
    elif name == "remove_nodes_from":
        S.remove_nodes_from(list(op[1]))
    elif name == "set_node_attributes":
        S.set_node_attributes(setattr_arg(op), name=op[3])
    elif name == "add_simplex":
        c = nets.container(op[2], op[1])
        try:
            S.add_simplex(c, idx=op[3], **copy.deepcopy(op[4]))
        finally:
            nets.scribble_after(c)
    elif name == "add_edge":
        S.add_edge(nets.container(op[2], op[1]), **copy.deepcopy(op[4]))
    elif name == "add_simplices_from":
        S.add_simplices_from(bulk_arg(op), max_order=op[5], **copy.deepcopy(op[3]))
    elif name == "add_edges_from":
        S.add_edges_from(bulk_arg(op), **copy.deepcopy(op[3]))
    elif name == "add_weighted_simplices_from":
        S.add_weighted_simplices_from([tuple(m) + (w,) for m, w in op[1]], max_order=op[4], weight=op[2], **copy.deepcopy(op[3]))
    elif name == "add_weighted_edges_from":
        S.add_weighted_edges_from([tuple(m) + (w,) for m, w in op[1]], max_order=op[4], weight=op[2], **copy.deepcopy(op[3]))
    elif name == "set_edge_attributes":
        S.set_edge_attributes(setattr_arg(op), name=op[3])
    elif name == "remove_simplex_id":
        S.remove_simplex_id(op[1])
    elif name == "remove_edge":
        S.remove_edge(op[1])
    elif name == "remove_simplex_ids_from":
        S.remove_simplex_ids_from(nets.bunch(op[1]))
    elif name == "remove_edges_from":
        S.remove_edges_from(nets.bunch(op[1]))
    elif name == "close":
        S.close()
    elif name == "cleanup":
        S.cleanup(isolates=op[1], connected=op[2], relabel=op[3], in_place=True)
    elif name == "clear":
        S.clear(remove_net_attr=op[1])
    else:
        raise ValueError(name)


ADDING = {"add_simplex", "add_simplices_from", "add_edge", "add_edges_from", "add_weighted_simplices_from", "add_weighted_edges_from"}
REMOVING = {"remove_node", "remove_nodes_from", "remove_simplex_id", "remove_simplex_ids_from", "remove_edge", "remove_edges_from", "cleanup", "clear"}


def added_sizes(cop):
    """sizes of the simplices an adding op names (for the non-triviality rules)"""
    name = cop[0]
    if name in ("add_simplex", "add_edge"):
        return [len(set(cop[1]))]
    if name in BULK:
        return [len(set(it[1] if cop[1] == 5 else it[0])) for it in cop[2]]
    if name in WEIGHTED:
        return [len(set(m)) for m, w in cop[1]]
    return []


def max_order_of(cop):
    if cop[0] == "add_simplices_from":
        return cop[5]
    if cop[0] in WEIGHTED:
        return cop[4]
    return None


# --------------------------------------------------------------------------------------------
# reference model: family of member sets; IDs are adopted from the implementation by member set


class Reject(Exception):
    pass


class Model:
    def __init__(self):
        self.nodes = {}
        self.fam = {}  # frozenset -> attrs
        self.ids = {}  # id -> frozenset   (all IDs, adopted from the implementation)
        self.net = {}
        self.pending_explicit = {}  # frozenset -> explicit id requested in the current op

    @classmethod
    def of(cls, S):
        M = cls()
        o = nets.snap_obs(S)
        M.nodes = {n: copy.deepcopy(o[1][n]) for n in o[0]}
        for e in o[2]:
            M.fam[o[3][e]] = copy.deepcopy(o[4][e])
            M.ids[e] = o[3][e]
        M.net = copy.deepcopy(o[5])
        return M

    def _add(self, fs, idx, attr):
        for n in fs:
            self.nodes.setdefault(n, {})
        self.fam[fs] = dict(attr)
        if idx is not None:
            self.pending_explicit[fs] = idx
            self.ids[idx] = fs

    def _faces(self, fs, max_size=None, defer=None):
        """missing faces of size 2..max_size (default: all proper faces).  With `defer` (bulk calls) the
        faces are only collected: a bulk call inserts them after all its elements, so that a face which is
        itself an element of the bunch keeps the ID and attributes given there."""
        hi = len(fs) - 1 if max_size is None else min(max_size, len(fs))
        for r in range(2, hi + 1):
            for sub in itertools.combinations(sorted(fs, key=repr), r):
                f = frozenset(sub)
                if defer is not None:
                    defer.append(f)
                elif f not in self.fam:
                    self._add(f, None, {})

    def flush(self, defer):
        for f in defer:
            if f not in self.fam:
                self._add(f, None, {})

    def add_simplex(self, members, idx, attr, max_order=None, idx_first=False, defer=None):
        """None is never a node (refused); an empty or already present simplex is skipped; an existing
        explicit ID is skipped; a simplex above max_order contributes its faces up to max_order only.
        idx_first: the dict format looks at the ID before max_order (undocumented either way)."""
        members = list(members)
        fs = frozenset(members)
        if None in fs:
            raise Reject("None member")
        if not fs or fs in self.fam:
            return
        if idx_first and idx is not None and idx in self.ids:
            return
        if max_order is not None and len(members) > max_order + 1:
            self._faces(fs, max_size=max_order + 1, defer=defer)
            return
        if idx is not None and idx in self.ids:
            return
        self._add(fs, idx, attr)
        self._faces(fs, defer=defer)

    def remove_id(self, idx):
        if idx not in self.ids:
            raise Reject("missing simplex id")
        t = self.ids[idx]
        for i, s in list(self.ids.items()):
            if t <= s:
                del self.ids[i]
                del self.fam[s]

    def apply(self, op):
        name = op[0]
        if name == "add_node":
            self.nodes.setdefault(op[1], {}).update(op[2])
        elif name == "add_nodes_from":
            for x in op[1]:
                if isinstance(x, list):
                    n, d = x
                    a = dict(op[2])
                    a.update(d)
                else:
                    n, a = x, dict(op[2])
                self.nodes.setdefault(n, {}).update(a)
        elif name == "remove_node":
            n = op[1]
            if n not in self.nodes:
                raise Reject("missing node")
            del self.nodes[n]
            for i, s in list(self.ids.items()):
                if n in s:
                    del self.ids[i]
                    del self.fam[s]
        elif name == "remove_nodes_from":
            for n in op[1]:
                if n in self.nodes:
                    self.apply(["remove_node", n])
        elif name in ("set_node_attributes", "set_edge_attributes"):
            tab = self.nodes if name == "set_node_attributes" else {i: self.fam[s] for i, s in self.ids.items()}
            mode, payload, nm = op[1], op[2], op[3]
            if mode != "const":
                payload = list({nets.freeze_val(k): (k, v) for k, v in payload}.values())
            if mode == "const":
                for k in tab:
                    tab[k][nm] = payload
            elif mode == "dict":
                for k, v in payload:
                    if k in tab:
                        tab[k][nm] = v
            else:
                for k, d in payload:
                    if k in tab:
                        tab[k].update(d)
        elif name == "add_simplex":
            self.add_simplex(op[1], op[3], op[4])
        elif name == "add_edge":
            self.add_simplex(op[1], None, op[4])
        elif name in BULK:
            fmt, items, attr = op[1], op[2], op[3]
            mo = op[5] if name == "add_simplices_from" else None
            if fmt == 5:
                items = list({nets.freeze_val(it[0]): it for it in items}.values())
            defer = []
            try:
                for it in items:
                    if fmt == 1:
                        mem, idx, ea = it[0], None, {}
                    elif fmt == 2:
                        mem, idx, ea = it[0], it[2], {}
                    elif fmt == 3:
                        mem, idx, ea = it[0], None, it[2]
                    elif fmt == 4:
                        mem, idx, ea = it[0], it[2], it[3]
                    else:
                        mem, idx, ea = it[1], it[0], {}
                    a = dict(attr)
                    a.update(ea)
                    self.add_simplex(mem, idx, a, max_order=mo, idx_first=(fmt == 5), defer=defer)
            finally:
                self.flush(defer)
        elif name in WEIGHTED:
            defer = []
            try:
                for mem, w in op[1]:
                    a = dict(op[3])
                    a[op[2]] = w
                    self.add_simplex(mem, None, a, max_order=op[4], defer=defer)
            finally:
                self.flush(defer)
        elif name in ("remove_simplex_id", "remove_edge"):
            self.remove_id(op[1])
        elif name in ("remove_simplex_ids_from", "remove_edges_from"):
            at_start = set(self.ids)
            for i in op[1]:
                if i in at_start and i not in self.ids:
                    continue  # already removed as a coface of an earlier element
                self.remove_id(i)
        elif name == "close":
            for s in list(self.fam):
                self._faces(s)
        elif name == "clear":
            self.nodes.clear()
            self.fam.clear()
            self.ids.clear()
            if op[1]:
                self.net.clear()
        else:
            raise ValueError(name)


def sanitise(S, cop, ctx):
    """None member + (existing explicit ID or already-present simplex): skip vs reject both defensible"""
    name = cop[0]

    def clean(mem, idx):
        if None in mem and idx is not None and idx in S._edge:
            ctx.event("sanitised")
            return [m for m in mem if m is not None]
        return mem

    if name == "add_simplex":
        cop[1] = clean(cop[1], cop[3])
    elif name in BULK:
        fmt = cop[1]
        for it in cop[2]:
            if fmt == 5:
                it[1] = clean(it[1], it[0])
            elif fmt in (2, 4):
                it[0] = clean(it[0], it[2])
    return cop


def family(S):
    o = nets.snap_obs(S)
    fam, dups = {}, []
    for e in o[2]:
        if o[3][e] in fam:
            dups.append(e)
        fam[o[3][e]] = o[4][e]
    return o, fam, dups


RESYNC = {"cleanup"}


def _has_none(x):
    if x is None:
        return True
    if isinstance(x, (list, tuple)):
        return any(_has_none(y) for y in x)
    if isinstance(x, dict):
        return any(_has_none(y) for y in x.values())
    return False


def run_model(case, ctx):
    """C05 for SimplicialComplex"""
    try:
        S = make_init(case["init"])
    except Exception:  # noqa: BLE001
        ctx.event("init-raised")
        return
    M = Model.of(S)
    strk = case["kind"] in ("str", "str2")
    returned, dependent = set(), False
    for step, op in enumerate(case["ops"]):
        cop = sanitise(S, concretise(S, op), ctx)
        name = cop[0]
        if strk and (name in BULK or name in WEIGHTED) and _has_none(cop[2] if name in BULK else cop[1]):
            ctx.event("sanitised")  # format sniffing on string labels with a None: exception type not specified
            continue
        o_before, fam_before, _ = family(S)
        exc = None
        try:
            apply_real(S, cop)
        except Exception as e:  # noqa: BLE001
            exc = e
            ctx.event("op-raised")
        o, fam, dups = family(S)
        if exc is None:
            returned.add(name)
            if name in REMOVING and fam != fam_before:
                dependent = True
        nfail = len(ctx.fails)
        if name in RESYNC:
            M = Model.of(S)
            continue
        M.pending_explicit = {}
        mexc = None
        try:
            M.apply(cop)
        except Reject as r:
            mexc = r
        if mexc is None and exc is not None:
            ctx.fail(("effect", name, "raises-where-docs-accept", type(exc).__name__), "step %d %r -> %r" % (step, cop, exc))
        elif mexc is not None and exc is None:
            ctx.fail(("effect", name, "accepts-where-docs-reject"), "step %d %r (model: %s)" % (step, cop, mexc))
        elif mexc is not None:
            ctx.check(isinstance(exc, LIBERR), ("effect", name, "rejects-with-foreign-exception", type(exc).__name__), "step %d %r -> %r" % (step, cop, exc))
        if len(ctx.fails) == nfail:
            tag = "after-raise" if exc is not None else "after-return"
            ctx.check(not dups, ("effect", name, "duplicate-simplices", tag), "step %d %r: ids %r" % (step, cop, dups))
            if set(fam) != set(M.fam):
                ctx.fail(("effect", name, "simplex-family", tag), "step %d %r exc %r: xgi-only %r model-only %r" % (
                    step, cop, exc, [sorted(map(repr, s)) for s in set(fam) - set(M.fam)][:4], [sorted(map(repr, s)) for s in set(M.fam) - set(fam)][:4]))
            else:
                bad = [s for s in fam if fam[s] != M.fam[s]]
                ctx.check(not bad, ("effect", name, "simplex-attrs", tag), lambda: "step %d %r: %r xgi %r model %r" % (step, cop, sorted(map(repr, bad[0])), fam[bad[0]], M.fam[bad[0]]))
                # explicit IDs honoured; adopt every ID from the implementation by member set
                for fs, idx in M.pending_explicit.items():
                    ctx.check(idx in o[3] and o[3][idx] == fs, ("effect", name, "explicit-id-not-honoured", tag), "step %d %r: id %r" % (step, cop, idx))
                M.ids = {e: o[3][e] for e in o[2]}
            ctx.check(o[1] == M.nodes, ("effect", name, "node-attrs", tag), lambda: "step %d %r: xgi %r model %r" % (step, cop, o[1], M.nodes))
            ctx.check(o[5] == M.net, ("effect", name, "net-attrs", tag), "step %d %r" % (step, cop))
        ctx.subchecks += 1
        if len(ctx.fails) > nfail:
            break
    ctx.mark(len(returned) >= 3 and dependent)
    ctx.event("len>=10" if len(case["ops"]) >= 10 else "len<10")
