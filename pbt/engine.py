"""Shared driver: seeding, sharding, collect-then-shrink, regression replays, evidence.

A property module (pbt/oracles/cXX.py) provides

    PID        "C01"
    RULE       text: how cases are generated and what makes one non-trivial
    BUDGET     {"quick": n_cases, "thorough": n_cases}
    strategy(tier) -> hypothesis strategy producing a JSON-serialisable *case*
    run_case(case, ctx)    executes the oracle; reports through ctx, never raises for a violation
    ASSUMPTIONS  list of str
    EXTRA      optional list of functions f(tier, seed) -> shard-result dict (exhaustive parts)

A *case* is plain JSON.  It is normalised through json before it is executed, so what runs under
Hypothesis is byte-for-byte what a replay file runs.
"""

import collections
import hashlib
import importlib
import json
import multiprocessing
import os
import sys
import time
import traceback
import warnings

ROOT = os.path.dirname(os.path.dirname(os.path.abspath(__file__)))
REPLAY_DIR = os.path.join(ROOT, "replays")
FOUND_DIR = os.path.join(REPLAY_DIR, "found")
EVIDENCE_DIR = os.path.join(ROOT, "evidence")
if os.environ.get("VERIF_REPO"):
    # sensitivity run against a scratch copy of the library: nothing it produces may land in /verif/evidence or /verif/replays
    FOUND_DIR = os.path.join(os.environ["VERIF_REPO"], "verif_found")
    EVIDENCE_DIR = os.path.join(os.environ["VERIF_REPO"], "verif_evidence")
KNOWN_FILE = os.path.join(ROOT, "known_findings.json")
NSHARDS = int(os.environ.get("VERIF_SHARDS", "16"))


class HarnessError(Exception):
    pass


class Ctx:
    """Per-case collector handed to run_case."""

    __slots__ = ("fails", "events", "nontrivial", "subchecks")

    def __init__(self):
        self.fails = []  # [(bucket tuple of str, detail str)]
        self.events = []  # labels
        self.nontrivial = False
        self.subchecks = 0

    def fail(self, bucket, detail=""):
        bucket = tuple(str(b) for b in bucket)
        self.fails.append((bucket, str(detail)[:600]))

    def check(self, cond, bucket, detail=""):
        self.subchecks += 1
        if not cond:
            self.fail(bucket, detail() if callable(detail) else detail)
        return cond

    def event(self, label):
        self.events.append(label)

    def mark(self, nontrivial=True):
        if nontrivial:
            self.nontrivial = True


def canon(case):
    return json.dumps(case, sort_keys=True, separators=(",", ":"))


def digest(case):
    return hashlib.blake2b(canon(case).encode(), digest_size=8).digest()


def _lib_frame(tb):
    """innermost frame of a traceback that lies inside the xgi package, or None"""
    hit = None
    for fr in traceback.extract_tb(tb):
        fn = fr.filename.replace("\\", "/")
        if "/xgi/" in fn and "/pbt/" not in fn:
            hit = fr
    return hit


CASE_TIMEOUT = int(os.environ.get("VERIF_CASE_TIMEOUT", "120"))  # seconds; generated cases take milliseconds


class _CaseTimeout(BaseException):
    pass


class _watchdog:
    """raises _CaseTimeout in the running case after CASE_TIMEOUT seconds (main thread of a worker process only)"""

    def __enter__(self):
        import signal
        import threading

        self.on = threading.current_thread() is threading.main_thread() and hasattr(signal, "SIGALRM")
        if self.on:
            def _raise(sig, frm):
                raise _CaseTimeout()

            self.old = signal.signal(signal.SIGALRM, _raise)
            signal.alarm(CASE_TIMEOUT)
        return self

    def __exit__(self, *a):
        if self.on:
            import signal

            signal.alarm(0)
            signal.signal(signal.SIGALRM, self.old)
        return False


def execute(mod, case, ctx):
    """Run one case.  An exception escaping run_case is a violation bucket if it was raised below a
    frame of the library under test (the oracle expected that call to succeed), else a harness error."""
    with warnings.catch_warnings():
        warnings.simplefilter("ignore")
        try:
            with _watchdog():
                mod.run_case(case, ctx)
        except HarnessError:
            raise
        except _CaseTimeout:
            # a time budget hit is "inconclusive", never a violation: the case is counted and left out
            ctx.event("case-timeout")
            ctx.fails[:] = []
        except Exception as e:  # noqa: BLE001
            fr = _lib_frame(e.__traceback__)
            if fr is None:
                raise HarnessError(
                    "oracle raised outside the library on case %s\n%s"
                    % (canon(case)[:2000], traceback.format_exc())
                ) from e
            ctx.fail(
                ("uncaught", type(e).__name__, os.path.basename(fr.filename), fr.name),
                "%s: %s at %s:%s" % (type(e).__name__, e, fr.filename, fr.lineno),
            )
    return ctx


def _new_result():
    return {
        "evaluations": 0,
        "subchecks": 0,
        "nontrivial": set(),
        "events": collections.Counter(),
        "samples": [],
        "buckets": {},  # bucket -> {"count", "case", "detail", "shard"}
        "error": None,
    }


def _record(res, case, ctx, shard):
    res["evaluations"] += 1
    res["subchecks"] += ctx.subchecks
    for lab in set(ctx.events):
        res["events"][lab] += 1
    if ctx.nontrivial:
        d = digest(case)
        if d not in res["nontrivial"]:
            res["nontrivial"].add(d)
            if len(res["samples"]) < 3:
                res["samples"].append(case)
    seen = set()
    for bucket, detail in ctx.fails:
        if bucket in seen:
            continue
        seen.add(bucket)
        b = res["buckets"].get(bucket)
        if b is None:
            res["buckets"][bucket] = {"count": 1, "case": case, "detail": detail, "shard": shard}
        else:
            b["count"] += 1
            if len(canon(case)) < len(canon(b["case"])):
                b["case"], b["detail"] = case, detail


def _hyp():
    import hypothesis
    from hypothesis import HealthCheck, Phase, given, settings

    return hypothesis, HealthCheck, Phase, given, settings


def _shard_collect(args):
    modname, tier, seed, shard, n = args
    res = _new_result()
    try:
        mod = importlib.import_module(modname)
        hypothesis, HealthCheck, Phase, given, settings = _hyp()

        @hypothesis.seed(seed * 1000 + shard)
        @settings(
            max_examples=n,
            database=None,
            deadline=None,
            derandomize=False,
            report_multiple_bugs=False,
            phases=[Phase.generate],
            suppress_health_check=list(HealthCheck),
        )
        @given(mod.strategy(tier))
        def t(case):
            case = json.loads(json.dumps(case))
            ctx = Ctx()
            execute(mod, case, ctx)
            _record(res, case, ctx, shard)

        t()
    except BaseException:  # noqa: BLE001
        res["error"] = traceback.format_exc()
    return res


class _Found(Exception):
    pass


def _shard_shrink(args):
    """Re-run one shard with a test that fails only on `bucket`; Hypothesis minimises it."""
    modname, tier, seed, shard, n, bucket, fallback = args
    bucket = tuple(bucket)
    last = {}
    try:
        mod = importlib.import_module(modname)
        hypothesis, HealthCheck, Phase, given, settings = _hyp()

        def fails(case):
            ctx = Ctx()
            execute(mod, case, ctx)
            for b, d in ctx.fails:
                if b == bucket:
                    return d
            return None

        if shard is not None:

            @hypothesis.seed(seed * 1000 + shard)
            @settings(
                max_examples=n,
                database=None,
                deadline=None,
                derandomize=False,
                report_multiple_bugs=False,
                phases=[Phase.generate, Phase.shrink],
                suppress_health_check=list(HealthCheck),
            )
            @given(mod.strategy(tier))
            def t(case):
                case = json.loads(json.dumps(case))
                d = fails(case)
                if d is not None:
                    last["case"], last["detail"] = case, d
                    raise _Found()

            try:
                t()
            except _Found:
                pass
            except BaseException:  # noqa: BLE001  (flaky / shrink trouble: fall back)
                last.pop("case", None)
        if "case" not in last:
            d = fails(fallback)
            if d is not None:
                last["case"], last["detail"] = fallback, d
        if "case" in last:
            case, detail = ddmin(last["case"], fails, budget=400, keys=getattr(mod, "SHRINK_KEYS", ("ops",)))
            return {"bucket": bucket, "case": case, "detail": detail or last["detail"]}
    except BaseException:  # noqa: BLE001
        return {"bucket": bucket, "case": fallback, "detail": "shrink failed: " + traceback.format_exc()[-400:]}
    return {"bucket": bucket, "case": fallback, "detail": "(not reproduced while shrinking)"}


def ddmin(case, fails, budget=400, keys=("ops",)):
    """Structural minimiser over JSON: drop elements of the lists stored under `keys` (operation
    histories - any sub-sequence of a history is again in the generator's domain) while `fails` stays
    true.  Runs after Hypothesis's shrinker (usually a no-op then) and for enumerated cases."""
    best = case
    best_detail = fails(best)
    if best_detail is None:
        return case, None
    spent = [0]

    def paths(x, pre=()):
        if isinstance(x, dict):
            for k in sorted(x):
                if k in keys and isinstance(x[k], list):
                    yield pre + (k,)
                yield from paths(x[k], pre + (k,))
        elif isinstance(x, list):
            for i, y in enumerate(x):
                yield from paths(y, pre + (i,))

    def get(x, p):
        for k in p:
            x = x[k]
        return x

    def replace(x, p, new):
        if not p:
            return new
        if isinstance(x, list):
            y = list(x)
        else:
            y = dict(x)
        y[p[0]] = replace(x[p[0]], p[1:], new)
        return y

    improved = True
    while improved and spent[0] < budget:
        improved = False
        for p in sorted(paths(best), key=len):
            try:
                lst = get(best, p)
            except (KeyError, IndexError, TypeError):
                continue
            if not isinstance(lst, list) or not lst:
                continue
            i = len(lst) - 1
            while i >= 0 and spent[0] < budget:
                cand = replace(best, p, lst[:i] + lst[i + 1 :])
                spent[0] += 1
                try:
                    d = fails(cand)
                except HarnessError:
                    d = None
                if d is not None:
                    best, best_detail, lst = cand, d, lst[:i] + lst[i + 1 :]
                    improved = True
                i -= 1
    return best, best_detail


def slug(bucket):
    s = "-".join(bucket)
    s = "".join(c if c.isalnum() or c in "-_." else "_" for c in s)
    return s[:100]


def load_known(pid):
    if not os.path.exists(KNOWN_FILE):
        return []
    with open(KNOWN_FILE) as f:
        data = json.load(f)
    return [e for e in data.get("findings", []) if e.get("property") == pid]


def load_module(pid):
    return importlib.import_module("pbt.oracles.%s" % pid.lower())


def replay_file(mod, path):
    with open(path) as f:
        rec = json.load(f)
    ctx = Ctx()
    execute(mod, rec["case"], ctx)
    return rec, ctx


def regression(mod, pid, out):
    """Seconds-long tier run first: every committed replay of this property.
    known entry still failing -> KNOWN-FINDING line + its bucket is suppressed;
    anything else failing -> violation (a fixed defect that came back)."""
    known = load_known(pid)
    by_replay = {e.get("replay"): e for e in known if e.get("replay")}
    suppressed = {}
    violations = []
    n = 0
    if os.path.isdir(REPLAY_DIR):
        for name in sorted(os.listdir(REPLAY_DIR)):
            if not (name.startswith(pid + "-") and name.endswith(".json")):
                continue
            path = os.path.join(REPLAY_DIR, name)
            rel = os.path.relpath(path, ROOT)
            rec, ctx = replay_file(mod, path)
            n += 1
            entry = by_replay.get(rel)
            failing = {b for b, _ in ctx.fails}
            if entry is not None and entry.get("status") == "known":
                kb = tuple(entry["bucket"])
                if kb in failing:
                    out("KNOWN-FINDING: property=%s %s" % (pid, entry["what"]))
                    suppressed[kb] = entry
                    failing.discard(kb)
            for b in sorted(failing):
                if b in suppressed:
                    continue
                violations.append({"bucket": b, "replay": rel, "detail": dict(ctx.fails).get(b, "")})
    # known entries without a replay file cannot be demonstrated -> they suppress nothing
    return n, suppressed, violations


def run_property(pid, tier, seed, out=print):
    t0 = time.time()
    mod = load_module(pid)
    modname = mod.__name__
    total = mod.BUDGET[tier]
    nshards = max(1, min(NSHARDS, total // 20 or 1))
    per = max(1, total // nshards)

    n_replays, suppressed, violations = regression(mod, pid, out)

    jobs = [(modname, tier, seed, s, per) for s in range(nshards)]
    ctxmp = multiprocessing.get_context("fork")
    results = []
    with ctxmp.Pool(min(nshards, NSHARDS)) as pool:
        async_main = pool.map_async(_shard_collect, jobs)
        extras = []
        for i, f in enumerate(getattr(mod, "EXTRA", [])):
            extras.append(pool.apply_async(_run_extra, ((modname, i, tier, seed),)))
        results = async_main.get()
        results += [a.get() for a in extras]

        merged = _new_result()
        for r in results:
            if r["error"]:
                raise HarnessError(r["error"])
            merged["evaluations"] += r["evaluations"]
            merged["subchecks"] += r["subchecks"]
            merged["nontrivial"] |= r["nontrivial"]
            merged["events"].update(r["events"])
            for s in r["samples"]:
                if len(merged["samples"]) < 5:
                    merged["samples"].append(s)
            for b, rec in r["buckets"].items():
                m = merged["buckets"].get(b)
                if m is None:
                    merged["buckets"][b] = dict(rec)
                else:
                    m["count"] += rec["count"]
                    if len(canon(rec["case"])) < len(canon(m["case"])):
                        m["case"], m["detail"], m["shard"] = rec["case"], rec["detail"], rec["shard"]

        known_hits = {}
        todo = []
        for b, rec in sorted(merged["buckets"].items()):
            if b in suppressed:
                known_hits[b] = rec["count"]
                continue
            todo.append((modname, tier, seed, rec["shard"], per, list(b), rec["case"]))
        shrunk = pool.map(_shard_shrink, todo[:32]) if todo else []

    os.makedirs(FOUND_DIR, exist_ok=True)
    for s in shrunk:
        b = tuple(s["bucket"])
        path = os.path.join(FOUND_DIR, "%s-%s.json" % (pid, slug(b)))
        with open(path, "w") as f:
            json.dump(
                {
                    "property": pid,
                    "bucket": list(b),
                    "detail": s["detail"],
                    "count_in_run": merged["buckets"][b]["count"],
                    "seed": seed,
                    "tier": tier,
                    "case": s["case"],
                },
                f,
                indent=1,
                sort_keys=True,
            )
        violations.append({"bucket": b, "replay": os.path.relpath(path, ROOT), "detail": s["detail"]})

    for v in violations:
        out("VIOLATION property=%s replay=%s" % (pid, v["replay"]))
        out("  bucket=%s detail=%s" % ("/".join(v["bucket"]), v["detail"][:300]))

    wall = time.time() - t0
    ev = {
        "property_id": pid,
        "tier": tier,
        "seed": seed,
        "level": "exploration",
        "coverage": {
            "evaluations": merged["evaluations"],
            "distinct_nontrivial": len(merged["nontrivial"]),
            "rule": mod.RULE,
            "samples": merged["samples"][:5],
            "oracle_subchecks": merged["subchecks"],
            "class_histogram": dict(sorted(merged["events"].items())),
            "shards": nshards,
            "regression_replays_run": n_replays,
            "known_finding_hits": {"/".join(b): c for b, c in known_hits.items()},
            "violation_buckets": {"/".join(b): r["count"] for b, r in merged["buckets"].items() if b not in suppressed},
            "requested_cases": per * nshards,
        },
        "assumptions": list(getattr(mod, "ASSUMPTIONS", [])),
        "wall_s": round(wall, 2),
        "violations": len(violations),
    }
    for r in results:
        for k, v in (r.get("coverage_extra") or {}).items():
            ev["coverage"][k] = v
    if hasattr(mod, "summarise"):
        ev["coverage"].update(mod.summarise(merged["events"]))
    os.makedirs(EVIDENCE_DIR, exist_ok=True)
    with open(os.path.join(EVIDENCE_DIR, "%s.json" % pid), "w") as f:
        json.dump(ev, f, indent=1, sort_keys=True, default=str)
    out(
        "%s tier=%s seed=%d cases=%d nontrivial=%d subchecks=%d violations=%d known=%d wall=%.1fs"
        % (pid, tier, seed, merged["evaluations"], len(merged["nontrivial"]), merged["subchecks"], len(violations), len(suppressed), wall)
    )
    return 1 if violations else 0


def _run_extra(args):
    modname, i, tier, seed = args
    res = _new_result()
    try:
        mod = importlib.import_module(modname)
        f = mod.EXTRA[i]

        def run(case, shard=None):
            case = json.loads(json.dumps(case))
            ctx = Ctx()
            execute(mod, case, ctx)
            _record(res, case, ctx, None)

        extra = f(tier, seed, run)
        if extra:
            res["coverage_extra"] = extra
    except BaseException:  # noqa: BLE001
        res["error"] = traceback.format_exc()
    return res


def run_replay(pid, path, out=print):
    mod = load_module(pid)
    rec, ctx = replay_file(mod, path)
    known = {tuple(e["bucket"]): e for e in load_known(pid) if e.get("status") == "known"}
    rc = 0
    for b, d in ctx.fails:
        if b in known:
            out("KNOWN-FINDING: property=%s %s" % (pid, known[b]["what"]))
            continue
        out("VIOLATION property=%s replay=%s" % (pid, path))
        out("  bucket=%s detail=%s" % ("/".join(b), d[:300]))
        rc = 1
    if not ctx.fails:
        out("replay %s: property %s held" % (path, pid))
    return rc
