"""DiHypergraph edit alphabet: op strategies (JSON), interpreter, reference model, C05 runner."""

import copy

from hypothesis import strategies as st

import xgi

from . import nets
from .nets import LIBERR, attrs, eid_literal, eid_ref, node_of


def side(kind, none_p):
    base = st.lists(node_of(kind), max_size=3)
    if not none_p:
        return base
    return st.one_of(base, base, base, base, base, base, base, st.tuples(base, st.integers(0, 3)).map(lambda t: t[0][: t[1]] + [None] + t[0][t[1] :]))


def op_strategy(kind, none_p=True, only=None):
    n = node_of(kind)
    n_or_none = st.one_of(n, n, n, n, n, n, n, n, st.none()) if none_p else n
    e = eid_ref
    # for operations that only do something on an existing edge: mostly IDs that exist right now
    ex = st.one_of(nets.eid_existing, nets.eid_existing, nets.eid_existing, eid_ref)
    e_or_none = st.one_of(e, e, e, e, e, e, e, e, st.none()) if none_p else e
    a = attrs()
    b = st.booleans()
    sd = side(kind, none_p)
    # [tail, head] - may overlap, may both be empty; one in six is a loop (tail == head)
    edge = st.one_of(st.tuples(sd, sd).map(list), st.tuples(sd, sd).map(list), st.tuples(sd, sd).map(list), st.tuples(sd, sd).map(list), st.tuples(sd, sd).map(list),
                     sd.filter(lambda s: None not in s).map(lambda s: [list(s), list(s)]),
                     n.map(lambda v: [[v], [v]]), n.map(lambda v: [[v], [v]]),  # a one-node loop
                     sd.filter(lambda s: None not in s and len(s) > 0).map(lambda s: [list(s), []]))  # an empty head
    ct = st.sampled_from(["list", "tuple", "set", "frozenset", "iter"])
    outer = st.sampled_from(["list", "tuple", "gen"])
    pairct = st.sampled_from(["list", "tuple"])
    direction = st.sampled_from(["in", "out", "in", "out", "in", "out", "sideways"])

    # an explicit ID in a bulk format may be None (one in fifteen): it must be refused like a None member
    eb = st.one_of([e] * 14 + [st.none()]) if none_p else e

    def bulk(fmt):
        if fmt == 1:
            items = st.lists(st.tuples(edge, ct, pairct).map(list), max_size=3)
        elif fmt == 2:
            items = st.lists(st.tuples(edge, ct, pairct, eb).map(list), max_size=3)
        elif fmt == 3:
            items = st.lists(st.tuples(edge, ct, pairct, a).map(list), max_size=3)
        elif fmt == 4:
            items = st.lists(st.tuples(edge, ct, pairct, eb, a).map(list), max_size=3)
        else:
            items = st.lists(st.tuples(eb, edge, ct, pairct).map(list), max_size=3)
        return st.tuples(st.just("add_edges_from"), st.just(fmt), items, a, outer).map(list)

    setattr_modes = lambda key: st.one_of(  # noqa: E731
        st.tuples(st.just("const"), nets.attr_value, st.sampled_from(["color", "w"])),
        st.tuples(st.just("dict"), st.lists(st.tuples(key, nets.attr_value).map(list), max_size=3), st.sampled_from(["w", "tag"])),
        st.tuples(st.just("dod"), st.lists(st.tuples(key, a).map(list), max_size=3), st.none()),
    )
    nm = st.one_of(n, st.tuples(st.just("@"), st.integers(0, 5)).map(list))
    ops = [
        (3, "add_node", st.tuples(st.just("add_node"), n_or_none, a).map(list)),
        (2, "add_nodes_from", st.tuples(st.just("add_nodes_from"), st.lists(st.one_of(n, st.tuples(n, a).map(list)), max_size=3), a).map(list)),
        (5, "remove_node", st.tuples(st.just("remove_node"), n, b, b).map(list)),
        (2, "remove_nodes_from", st.tuples(st.just("remove_nodes_from"), st.lists(n, max_size=3), b, b).map(list)),
        (2, "set_node_attributes", setattr_modes(n).map(lambda t: ["set_node_attributes"] + list(t))),
        (7, "add_edge", st.tuples(st.just("add_edge"), edge, ct, pairct, st.none(), a).map(list)),
        (5, "add_edge", st.tuples(st.just("add_edge"), edge, st.sampled_from(["list", "tuple", "set", "frozenset", "iter"]), pairct, e, a).map(list)),
        (2, "add_edges_from", bulk(1)),
        (2, "add_edges_from", bulk(2)),
        (2, "add_edges_from", bulk(3)),
        (2, "add_edges_from", bulk(4)),
        (2, "add_edges_from", bulk(5)),
        (2, "set_edge_attributes", setattr_modes(ex).map(lambda t: ["set_edge_attributes"] + list(t))),
        (5, "add_node_to_edge", st.tuples(st.just("add_node_to_edge"), e_or_none, n_or_none, direction).map(list)),
        (3, "remove_edge", st.tuples(st.just("remove_edge"), ex).map(list)),
        (4, "remove_edges_from", st.tuples(st.just("remove_edges_from"), nets.eid_removal_list).map(list)),
        (8, "remove_node_from_edge", st.tuples(st.just("remove_node_from_edge"), ex, nm, direction, b).map(list)),
        (1, "set_net_attr", st.tuples(st.just("set_net_attr"), st.sampled_from(["name", "tag"]), nets.attr_value).map(list)),
        (0.5, "clear", st.tuples(st.just("clear"), b).map(list)),
        (1, "cleanup", st.tuples(st.just("cleanup"), b, b).map(list)),
        (0.7, "convert_labels_to_integers", st.tuples(st.just("convert_labels_to_integers"), st.sampled_from(["label", "old"])).map(list)),
        (0.7, "copy", st.just(["copy"])),
    ]
    pool = []
    for w, nm, s in ops:
        if only is None or nm in only:
            pool += [s] * max(1, int(round(w * 2)))
    return st.one_of(pool)


def init_strategy(kind):
    n = node_of(kind)
    sd = st.lists(n, max_size=3)
    edge = st.tuples(sd, sd).map(list)
    return st.one_of(
        st.just(["empty"]),
        st.tuples(st.just("edgelist"), st.lists(edge, max_size=4)).map(list),
        st.tuples(st.just("edgelist"), st.lists(edge, min_size=3, max_size=6)).map(list),  # start networks with several edges
        st.tuples(st.just("edgedict"), st.lists(st.tuples(eid_literal, edge).map(list), max_size=4, unique_by=lambda t: repr(t[0]))).map(list),
        st.tuples(st.just("edgedict"), st.lists(st.tuples(eid_literal, edge).map(list), min_size=3, max_size=6, unique_by=lambda t: repr(t[0]))).map(list),
        st.tuples(st.just("copyof"), st.lists(st.tuples(eid_literal, edge).map(list), max_size=3, unique_by=lambda t: repr(t[0]))).map(list),
        # a fresh network whose only edge was added singly under a falsy explicit ID (0, 0.0, numpy 0)
        st.tuples(st.just("first-explicit"), st.tuples(st.lists(n, min_size=1, max_size=3), sd).map(list), st.sampled_from(["int", "int", "float", "npint"])).map(list),
    )


def make_init(init):
    t = init[0]
    if t == "empty":
        return xgi.DiHypergraph()
    if t == "edgelist":
        return xgi.DiHypergraph([(list(a), list(b)) for a, b in init[1]])
    if t == "edgedict":
        return xgi.DiHypergraph({k: (list(a), list(b)) for k, (a, b) in init[1]})
    if t == "copyof":
        return xgi.DiHypergraph(xgi.DiHypergraph({k: (list(a), list(b)) for k, (a, b) in init[1]}))
    if t == "first-explicit":
        H = xgi.DiHypergraph()
        H.add_edge((list(init[1][0]), list(init[1][1])), idx=nets.ZERO[init[2]])
        return H
    raise ValueError(t)


@st.composite
def history(draw, max_ops=30, none_p=True, kind=None):
    kind = kind or draw(nets.kinds)
    return {"kind": kind, "init": draw(init_strategy(kind)), "ops": draw(nets.op_lists(op_strategy(kind, none_p), max_ops))}


# --------------------------------------------------------------------------------------------


def concretise(H, op):
    r = lambda x: nets.resolve_eid(H, x)  # noqa: E731
    op = copy.deepcopy(op)
    name = op[0]
    if name == "add_edge":
        op[4] = r(op[4])
    elif name == "add_edges_from":
        fmt = op[1]
        for it in op[2]:
            if fmt in (2, 4):
                it[3] = r(it[3])
            elif fmt == 5:
                it[0] = r(it[0])
    elif name == "set_edge_attributes" and op[1] in ("dict", "dod"):
        for it in op[2]:
            it[0] = r(it[0])
    elif name in ("add_node_to_edge", "remove_edge", "remove_node_from_edge"):
        op[1] = r(op[1])
        if name == "remove_node_from_edge":
            from .hops import member_ref

            op[2] = member_ref(H, op[1], op[2], side=op[3] if op[3] in ("in", "out") and op[2] and isinstance(op[2], list) and op[2][1] % 3 else None)
    elif name == "remove_edges_from":
        op[1] = [r(x) for x in op[1]]
    return op


def pair(edge, ct, pairct):
    t, h = nets.container(ct, edge[0]), nets.container(ct, edge[1])
    return (t, h) if pairct == "tuple" else [t, h]


def bulk_arg(op):
    fmt, items, outer = op[1], op[2], op[4]
    if fmt == 1:
        xs = [pair(ed, ct, pc) for ed, ct, pc in items]
    elif fmt == 2:
        xs = [(pair(ed, ct, pc), i) for ed, ct, pc, i in items]
    elif fmt == 3:
        xs = [(pair(ed, ct, pc), copy.deepcopy(a)) for ed, ct, pc, a in items]
    elif fmt == 4:
        xs = [(pair(ed, ct, pc), i, copy.deepcopy(a)) for ed, ct, pc, i, a in items]
    else:
        return {i: pair(ed, ct, pc) for i, ed, ct, pc in items}
    if outer == "list":
        return xs
    if outer == "tuple":
        return tuple(xs)
    return (x for x in xs)


def apply_real(H, op):
    """apply a concrete op; returns the network to continue with (copy replaces it)"""
    from .hops import setattr_arg

    name = op[0]
    if name == "add_node":
        H.add_node(op[1], **op[2])
    elif name == "add_nodes_from":
        H.add_nodes_from([tuple(x) if isinstance(x, list) else x for x in copy.deepcopy(op[1])], **op[2])
    elif name == "remove_node":
        H.remove_node(op[1], strong=op[2], remove_empty=op[3])
    elif name == "remove_nodes_from":
        H.remove_nodes_from(nets.bunch(op[1]), strong=op[2], remove_empty=op[3])
    elif name == "set_node_attributes":
        H.set_node_attributes(setattr_arg(op), name=op[3])
    elif name == "add_edge":
        c = pair(op[1], op[2], op[3])
        try:
            H.add_edge(c, idx=op[4], **copy.deepcopy(op[5]))
        finally:
            for side in c:
                nets.scribble_after(side)
    elif name == "add_edges_from":
        H.add_edges_from(bulk_arg(op), **copy.deepcopy(op[3]))
    elif name == "set_edge_attributes":
        H.set_edge_attributes(setattr_arg(op), name=op[3])
    elif name == "add_node_to_edge":
        H.add_node_to_edge(op[1], op[2], op[3])
    elif name == "remove_edge":
        H.remove_edge(op[1])
    elif name == "remove_edges_from":
        H.remove_edges_from(nets.bunch(op[1]))
    elif name == "remove_node_from_edge":
        H.remove_node_from_edge(op[1], op[2], op[3], remove_empty=op[4])
    elif name == "set_net_attr":
        H[op[1]] = op[2]
    elif name == "clear":
        H.clear(remove_net_attr=op[1])
    elif name == "cleanup":
        H.cleanup(isolates=op[1], relabel=op[2], in_place=True)
    elif name == "convert_labels_to_integers":
        xgi.convert_labels_to_integers(H, label_attribute=op[1], in_place=True)
    elif name == "copy":
        return H.copy()
    else:
        raise ValueError(name)
    return H


EDGE_CREATING = {"add_edge", "add_edges_from", "add_node_to_edge"}
REMOVING = {"remove_node", "remove_nodes_from", "remove_edge", "remove_edges_from", "remove_node_from_edge", "cleanup", "clear", "convert_labels_to_integers"}


class Reject(Exception):
    pass


class NeedFresh(Exception):
    pass


class Model:
    def __init__(self):
        self.nodes = {}
        self.edges = {}  # id -> [tail set, head set, attrs]
        self.net = {}

    @classmethod
    def of(cls, H):
        M = cls()
        o = nets.snap_obs(H)
        M.nodes = {n: copy.deepcopy(o[1][n]) for n in o[0]}
        M.edges = {e: [set(o[3][e][0]), set(o[3][e][1]), copy.deepcopy(o[4][e])] for e in o[2]}
        M.net = copy.deepcopy(o[5])
        return M

    def snap(self):
        return (
            list(self.nodes),
            {n: dict(a) for n, a in self.nodes.items()},
            list(self.edges),
            {e: (frozenset(t), frozenset(h)) for e, (t, h, a) in self.edges.items()},
            {e: dict(a) for e, (t, h, a) in self.edges.items()},
            dict(self.net),
        )

    def add_edge(self, edge, idx, attr, fresh, explicit=False):
        tail, head = list(edge[0]), list(edge[1])
        if idx is not None and idx in self.edges:
            return
        if None in tail or None in head:
            raise Reject("None member")
        if explicit and idx is None:
            raise Reject("None as an explicit edge ID (bulk formats 2, 4, 5)")
        if idx is None:
            idx = fresh()
        for n in tail + head:
            self.nodes.setdefault(n, {})
        self.edges[idx] = [set(tail), set(head), dict(attr)]

    def remove_node(self, n, strong, rem):
        if n not in self.nodes:
            raise Reject("missing node")
        del self.nodes[n]
        for e in list(self.edges):
            t, h, _ = self.edges[e]
            if n in t or n in h:
                if strong:
                    del self.edges[e]
                else:
                    t.discard(n)
                    h.discard(n)
                    if not t and not h and rem:
                        del self.edges[e]

    def apply(self, op, fresh):
        name = op[0]
        if name == "add_node":
            if op[1] is None:
                raise Reject("None node")
            self.nodes.setdefault(op[1], {}).update(op[2])
        elif name == "add_nodes_from":
            for x in op[1]:
                if isinstance(x, list):
                    n, d = x
                    a = dict(op[2])
                    a.update(d)
                else:
                    n, a = x, dict(op[2])
                self.nodes.setdefault(n, {}).update(a)
        elif name == "remove_node":
            self.remove_node(op[1], op[2], op[3])
        elif name == "remove_nodes_from":
            for n in op[1]:
                if n in self.nodes:
                    self.remove_node(n, op[2], op[3])
        elif name in ("set_node_attributes", "set_edge_attributes"):
            tab = self.nodes if name == "set_node_attributes" else {e: v[2] for e, v in self.edges.items()}
            mode, payload, nm = op[1], op[2], op[3]
            if mode != "const":
                payload = list({nets.freeze_val(k): (k, v) for k, v in payload}.values())
            if mode == "const":
                for k in tab:
                    tab[k][nm] = payload
            elif mode == "dict":
                for k, v in payload:
                    if k in tab:
                        tab[k][nm] = v
            else:
                for k, d in payload:
                    if k in tab:
                        tab[k].update(d)
        elif name == "add_edge":
            self.add_edge(op[1], op[4], op[5], fresh)
        elif name == "add_edges_from":
            fmt, items, attr = op[1], op[2], op[3]
            if fmt == 5:
                items = list({nets.freeze_val(it[0]): it for it in items}.values())
            for it in items:
                if fmt == 1:
                    ed, idx, ea = it[0], None, {}
                elif fmt == 2:
                    ed, idx, ea = it[0], it[3], {}
                elif fmt == 3:
                    ed, idx, ea = it[0], None, it[3]
                elif fmt == 4:
                    ed, idx, ea = it[0], it[3], it[4]
                else:
                    ed, idx, ea = it[1], it[0], {}
                a = dict(attr)
                a.update(ea)
                self.add_edge(ed, idx, a, fresh, explicit=fmt in (2, 4, 5))
        elif name == "add_node_to_edge":
            e, n, d = op[1], op[2], op[3]
            if d not in ("in", "out") or e is None or n is None:
                raise Reject("invalid direction / None")
            if e not in self.edges:
                self.edges[e] = [set(), set(), {}]
            self.nodes.setdefault(n, {})
            self.edges[e][0 if d == "in" else 1].add(n)  # "in" = tail, "out" = head
        elif name == "remove_edge":
            if op[1] not in self.edges:
                raise Reject("missing edge")
            del self.edges[op[1]]
        elif name == "remove_edges_from":
            for e in op[1]:
                if e not in self.edges:
                    raise Reject("missing edge")
                del self.edges[e]
        elif name == "remove_node_from_edge":
            e, n, d, rem = op[1], op[2], op[3], op[4]
            if d not in ("in", "out") or e not in self.edges or n not in self.nodes:
                raise Reject("invalid")
            s = self.edges[e][0 if d == "in" else 1]
            if n not in s:
                raise Reject("not a member on that side")
            s.discard(n)
            if not self.edges[e][0] and not self.edges[e][1] and rem:
                del self.edges[e]
        elif name == "set_net_attr":
            self.net[op[1]] = op[2]
        elif name == "clear":
            self.nodes.clear()
            self.edges.clear()
            if op[1]:
                self.net.clear()
        else:
            raise ValueError(name)


RESYNC = {"cleanup", "convert_labels_to_integers"}


def sanitise(H, cop, kind, ctx):
    name = cop[0]

    def clean(edge, idx):
        if (None in edge[0] or None in edge[1]) and idx is not None and idx in H._edge:
            ctx.event("sanitised")
            return [[m for m in edge[0] if m is not None], [m for m in edge[1] if m is not None]]
        return edge

    if name == "add_edge":
        cop[1] = clean(cop[1], cop[4])
    elif name == "add_edges_from":
        fmt = cop[1]
        for it in cop[2]:
            if fmt == 5:
                it[1] = clean(it[1], it[0])
            elif fmt in (2, 4):
                it[0] = clean(it[0], it[3])
    return cop


def explicit_ids(cop):
    name = cop[0]
    if name == "add_edge":
        return set() if cop[4] is None else {nets.freeze_val(cop[4])}
    if name == "add_edges_from":
        if cop[1] == 5:
            return {nets.freeze_val(it[0]) for it in cop[2]}
        if cop[1] in (2, 4):
            return {nets.freeze_val(it[3]) for it in cop[2]}
        return set()
    if name == "add_node_to_edge":
        return {nets.freeze_val(cop[1])}
    return set()


def run_model(case, ctx):
    """C05 for DiHypergraph"""
    from .oracles.c05 import diff_snap, unordered

    try:
        H = make_init(case["init"])
    except Exception:  # noqa: BLE001
        ctx.event("init-raised")
        return
    M = Model.of(H)
    returned, dependent = set(), False
    for step, op in enumerate(case["ops"]):
        cop = sanitise(H, concretise(H, op), case["kind"], ctx)
        name = cop[0]
        before = nets.snap_obs(H)
        before_ids = set(H._edge)
        exc = None
        try:
            H = apply_real(H, cop)
        except Exception as e:  # noqa: BLE001
            exc = e
        after = nets.snap_obs(H)
        if exc is None:
            returned.add(name)
            if name in REMOVING and unordered(before) != unordered(after):
                dependent = True
        else:
            ctx.event("op-raised")
        nfail = len(ctx.fails)
        if name in RESYNC:
            M = Model.of(H)
            continue
        if name == "copy":
            ctx.check(exc is None, ("effect", "copy", "raised"), repr(exc))
            for tag, detail in diff_snap(unordered(after), unordered(M.snap())):
                ctx.fail(("effect", "copy", tag), "step %d: %s" % (step, detail))
            if len(ctx.fails) > nfail:
                break
            continue
        new_ids = [e for e in H._edge if e not in before_ids]
        expl = explicit_ids(cop)
        auto = [e for e in new_ids if nets.freeze_val(e) not in expl]
        for e in auto:
            ctx.check(isinstance(e, int) and not isinstance(e, bool), ("auto-id", name, "not-an-int"), "%r -> %r" % (cop, e))
        it = iter(auto)

        def fresh():
            try:
                return next(it)
            except StopIteration:
                raise NeedFresh() from None

        mexc = None
        try:
            M.apply(cop, fresh)
        except Reject as r:
            mexc = r
        except NeedFresh:
            ctx.fail(("auto-id", name, "fewer-new-ids-than-edges-added"), "step %d %r: new ids %r" % (step, cop, new_ids))
            break
        if mexc is None and exc is not None:
            ctx.fail(("effect", name, "raises-where-docs-accept", type(exc).__name__), "step %d %r -> %r" % (step, cop, exc))
        elif mexc is not None and exc is None:
            ctx.fail(("effect", name, "accepts-where-docs-reject"), "step %d %r (model: %s)" % (step, cop, mexc))
        elif mexc is not None:
            ctx.check(isinstance(exc, LIBERR), ("effect", name, "rejects-with-foreign-exception", type(exc).__name__), "step %d %r -> %r" % (step, cop, exc))
        if len(ctx.fails) == nfail:
            for tag, detail in diff_snap(unordered(after), unordered(M.snap())):
                ctx.fail(("effect", name, tag, "after-raise" if exc is not None else "after-return"), "step %d %r exc %r: %s" % (step, cop, exc, detail))
        ctx.subchecks += 1
        if len(ctx.fails) > nfail:
            break
    ctx.mark(len(returned) >= 3 and dependent)
    ctx.event("len>=10" if len(case["ops"]) >= 10 else "len<10")
