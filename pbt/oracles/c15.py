"""C15 - simpliciality measures match their combinatorial definitions (exhaustive enumeration per input)."""
import itertools
import math

from hypothesis import strategies as st

import xgi

from .. import nets

PID = "C15"
RULE = (
    "case = hypergraph with orderable labels (all int or all str), no repeated and no empty edges, built from 1-3 'big' "
    "faces (3-5 nodes) that share nodes plus a drawn subset of their sub-faces (or, one case in four, the full downward "
    "closure above min_size) x min_size in {1,2,3} x exclude_min_size x normalize. Oracle by exhaustive enumeration over "
    "the subsets of the maximal edges: un-normalised edit distance = number of distinct node sets of size >= min_size "
    "strictly inside an eligible maximal edge that are not edges; simplicial fraction = share of eligible edges all of "
    "whose eligible subsets are edges; mean face edit distance = mean missing-subface share over eligible maximal edges; "
    "Every measure is also called with its options passed positionally, and everything is evaluated again after an in-place edit of the same hypergraph. "
    "every score in [0,1] or NaN; the three simplicialities equal 1 (or NaN) on downward-closed inputs. non-trivial = two "
    "maximal faces whose intersection has >= min_size nodes and is not an edge (the redundant-missing-face branch)"
)
BUDGET = {"quick": 5000, "thorough": 100000}
ASSUMPTIONS = [
    "the normalised edit distance is compared with missing / (edges of size >= min_size - eligible maximal faces + missing), the normalisation the implementation documents as 'fraction of sub-edges'; the un-normalised count is the independent statement",
]


@st.composite
def cases(draw, tier):
    kind = draw(st.sampled_from(["int", "gap", "str", "str2"]))
    alph = nets.NODE_KINDS[kind]
    nbig = draw(st.integers(1, 3))
    big = [draw(st.lists(st.sampled_from(alph), min_size=2, max_size=5, unique=True)) for _ in range(nbig)]
    sub = draw(st.lists(st.tuples(st.integers(0, nbig - 1), st.integers(1, 30)).map(list), max_size=8))
    extra = draw(st.lists(st.lists(st.sampled_from(alph), min_size=1, max_size=2, unique=True), max_size=2))
    return {"kind": kind, "big": big, "sub": sub, "extra": extra, "min_size": draw(st.integers(1, 3)),
            "excl": draw(st.booleans()), "closed": draw(st.integers(0, 3)) == 0, "shuffle": draw(st.integers(0, 1000)),
            # attributes called like statistics ("size", "order", "degree") on the elements; an empty edge ahead of the others
            "shadow": draw(st.integers(0, 3)) == 0, "empty_first": draw(st.integers(0, 5)) == 0}


def strategy(tier):
    return cases(tier)


def edge_family(case):
    fam = []
    for b in case["big"]:
        fam.append(frozenset(b))
    if case["closed"]:
        for b in case["big"]:
            for r in range(case["min_size"], len(b)):
                for c in itertools.combinations(b, r):
                    fam.append(frozenset(c))
    else:
        for i, mask in case["sub"]:
            b = case["big"][i]
            s = frozenset(x for j, x in enumerate(b) if mask >> j & 1)
            if s:
                fam.append(s)
        for e in case["extra"]:
            fam.append(frozenset(e))
    out = list(dict.fromkeys(fam))  # no repeated edges
    import random

    random.Random(case["shuffle"]).shuffle(out)
    return out


def same_num(a, b):
    return (isinstance(a, float) and isinstance(b, float) and math.isnan(a) and math.isnan(b)) or a == b


def run_case(case, ctx):
    fam = edge_family(case)
    H = xgi.Hypergraph()
    if case.get("empty_first"):
        H.add_edge([])  # an empty edge is an edge without repeated copies like any other (it is below every min_size)
    H.add_edges_from([sorted(e) for e in fam])
    if case.get("shadow"):
        nets.shadow_stat_names(H)
    _evaluate(H, case, ctx)
    # the same object after a small in-place edit (still without repeated edges): everything is enumerated and compared again
    if nets.small_edit(H, no_duplicates=True) is not None and not any(len(m) == 0 for m in H.edges.members()):
        ctx.event("re-evaluated-after-edit")
        _evaluate(H, case, ctx)


def _evaluate(H, case, ctx):
    ms_, excl = case["min_size"], case["excl"]
    fam = [frozenset(m) for m in H.edges.members()]
    es = set(fam)
    C = ctx.check
    maxes = [e for e in es if not any(e < f for f in es)]
    elig_max = [e for e in maxes if len(e) >= ms_ + excl]
    missing = set()
    for e in elig_max:
        for k in range(ms_, len(e)):
            for c in itertools.combinations(e, k):
                if frozenset(c) not in es:
                    missing.add(frozenset(c))
    tag = "min_size=%d exclude=%s edges=%r" % (ms_, excl, [sorted(e) for e in fam])
    # ---- simplicial edit distance
    got = xgi.simplicial_edit_distance(H, min_size=ms_, exclude_min_size=excl, normalize=False)
    if not elig_max:
        C(isinstance(got, float) and math.isnan(got), ("edit-distance", "nan-when-nothing-eligible"), lambda: "%s got %r" % (tag, got))
    else:
        C(got == len(missing), ("edit-distance", "count"), lambda: "%s got %r expected %d" % (tag, got, len(missing)))
    gotn = xgi.simplicial_edit_distance(H, min_size=ms_, exclude_min_size=excl, normalize=True)
    C(same_num(gotn, xgi.simplicial_edit_distance(H, ms_, excl, True)) and same_num(got, xgi.simplicial_edit_distance(H, ms_, excl, False)),
      ("edit-distance", "positional-vs-keyword"), lambda: "%s" % tag)
    s_count = sum(1 for e in es if len(e) >= ms_)
    den = s_count - len(elig_max) + len(missing)
    if not elig_max or den <= 0:
        C(math.isnan(gotn), ("edit-distance", "normalised-nan"), lambda: "%s got %r" % (tag, gotn))
    else:
        C(abs(gotn - len(missing) / den) < 1e-12 and -1e-12 <= gotn <= 1 + 1e-12 and ((gotn == 0) == (len(missing) == 0)), ("edit-distance", "normalised"), lambda: "%s got %r expected %r" % (tag, gotn, len(missing) / den))
    es_val = xgi.edit_simpliciality(H, min_size=ms_, exclude_min_size=excl)
    C((math.isnan(es_val) and math.isnan(gotn)) or abs(es_val - (1 - gotn)) < 1e-12, ("edit-simpliciality", "one-minus-distance"), lambda: "%s %r vs %r" % (tag, es_val, gotn))
    # ---- simplicial fraction
    elig = [e for e in es if len(e) >= ms_ + excl]
    sf = xgi.simplicial_fraction(H, min_size=ms_, exclude_min_size=excl)
    C(same_num(sf, xgi.simplicial_fraction(H, ms_, excl)) and same_num(es_val, xgi.edit_simpliciality(H, ms_, excl)), ("scores", "positional-vs-keyword"), lambda: "%s" % tag)
    if elig:
        want = sum(1 for e in elig if all(frozenset(c) in es for k in range(ms_, len(e)) for c in itertools.combinations(e, k))) / len(elig)
        C(abs(sf - want) < 1e-12, ("simplicial-fraction", "value"), lambda: "%s got %r expected %r" % (tag, sf, want))
    else:
        C(math.isnan(sf), ("simplicial-fraction", "nan-when-nothing-eligible"), lambda: "%s got %r" % (tag, sf))
    # ---- mean face edit distance
    for norm in (True, False):
        mf = xgi.mean_face_edit_distance(H, min_size=ms_, exclude_min_size=excl, normalize=norm)
        if elig_max:
            tot = 0.0
            for e in elig_max:
                subs = [frozenset(c) for k in range(ms_, len(e)) for c in itertools.combinations(e, k)]
                miss = sum(1 for c in subs if c not in es)
                tot += (miss / len(subs)) if (norm and subs) else miss
            want = tot / len(elig_max)
            C(abs(mf - want) < 1e-12, ("mean-face-edit-distance", "value", "normalize=%s" % norm), lambda: "%s got %r expected %r" % (tag, mf, want))
        # the same call with the options given positionally, in the documented order (H, min_size, exclude_min_size, normalize)
        mfp = xgi.mean_face_edit_distance(H, ms_, excl, norm)
        C(same_num(mf, mfp), ("mean-face-edit-distance", "positional-vs-keyword", "normalize=%s" % norm), lambda: "%s keyword %r positional %r" % (tag, mf, mfp))
    fes = xgi.face_edit_simpliciality(H, min_size=ms_, exclude_min_size=excl)
    mfn = xgi.mean_face_edit_distance(H, min_size=ms_, exclude_min_size=excl)
    C(abs(fes - (1 - mfn)) < 1e-12 or (math.isnan(fes) and math.isnan(mfn)), ("face-edit-simpliciality", "one-minus-distance"), lambda: "%s %r %r" % (tag, fes, mfn))
    # ---- ranges and downward-closed inputs
    scores = {"edit_simpliciality": es_val, "face_edit_simpliciality": fes, "simplicial_fraction": sf}
    for nm, v in scores.items():
        C(math.isnan(v) or -1e-12 <= v <= 1 + 1e-12, ("range", nm), lambda: "%s %s = %r" % (tag, nm, v))
    closed = all(frozenset(c) in es for e in es for k in range(ms_, len(e)) for c in itertools.combinations(e, k))
    if closed:
        ctx.event("downward-closed-input")
        for nm, v in scores.items():
            if nm == "face_edit_simpliciality" and not elig_max:
                continue  # mean over no faces: 1 - 0 by convention of the implementation, not claimed
            C(math.isnan(v) or abs(v - 1) < 1e-12, ("downward-closed", nm), lambda: "%s %s = %r" % (tag, nm, v))
    redundant = any(len(a & b) >= ms_ and (a & b) not in es for a, b in itertools.combinations(elig_max, 2))
    if redundant:
        ctx.event("redundant-missing-face-branch")
    ctx.mark(redundant)
