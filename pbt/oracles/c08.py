"""C08 - the read-only API never mutates the network it is given (programs x inputs)."""
import copy
import inspect
import os
import shutil
import tempfile

import matplotlib

matplotlib.use("Agg")
import matplotlib.pyplot as plt  # noqa: E402
import numpy as np  # noqa: E402
from hypothesis import strategies as st  # noqa: E402

import xgi  # noqa: E402
from xgi.core import views as xviews  # noqa: E402
from xgi.stats import diedgestats, dinodestats, edgestats, nodestats  # noqa: E402

from .. import nets  # noqa: E402

PID = "C08"
RULE = (
    "case = (callable, network spec, six integer picks). The callable list is built by introspection at run time: every "
    "public xgi.* function whose first parameter is a network (H, S, SC, net), every node/edge stat of the four stat "
    "modules through the views (all output forms), every public view method, and the non-in-place methods of the three "
    "classes; remaining arguments are synthesised from a registry keyed by parameter name (in_place is forced to False). "
    "Oracle: deep snapshot (node order, edge order, members, memberships, member container types, deep copies of all "
    "attribute dicts, network attrs, frozen flag, next automatic edge ID) is identical before and after, whether the "
    "After the drawn callable, every cheap accessor of the class (all view methods, the degree / size / attrs statistics, the class-level accessors; two-valued options both ways) runs on the same network and the snapshot is compared once more; the second operand of << is an input too; attribute values include sets and tuples holding lists. "
    "call returns or raises. non-trivial = the call returned on a network with >=2 edges; distinct = distinct "
    "(callable, network, picks) JSON. An enumerated sweep calls every callable on two fixed networks per class."
)
BUDGET = {"quick": 9000, "thorough": 120000}
ASSUMPTIONS = [
    "callables documented as in-place (mutators, in_place=True, update_uid_counter) are excluded here and exercised by C01-C05/C18",
    "a callable whose required parameters cannot be synthesised from the registry is listed under coverage.uncovered_callables (never a failure)",
]

NETPARAMS = ("H", "S", "SC", "net", "DH")
EXCLUDE = {"update_uid_counter"}  # documented in-place helper


def _public_functions():
    out = {}
    for name in sorted(dir(xgi)):
        if name.startswith("_") or name in EXCLUDE:
            continue
        f = getattr(xgi, name)
        if inspect.isclass(f) or inspect.ismodule(f) or not callable(f):
            continue
        try:
            ps = list(inspect.signature(f).parameters.values())
        except (TypeError, ValueError):
            continue
        if ps and ps[0].name in NETPARAMS:
            out["fn:" + name] = f
    return out


FUNCS = _public_functions()
STATS = {}
for _mod, _view, _di in ((nodestats, "nodes", False), (edgestats, "edges", False), (dinodestats, "nodes", True), (diedgestats, "edges", True)):
    for _n in getattr(_mod, "__all__", []):
        STATS["stat:%s%s.%s" % ("di" if _di else "", _view, _n)] = (_view, _n, _di)
VIEWMETHODS = {}
for _cls, _view, _di in ((xviews.NodeView, "nodes", False), (xviews.EdgeView, "edges", False), (xviews.DiNodeView, "nodes", True), (xviews.DiEdgeView, "edges", True)):
    for _n in dir(_cls):
        if not _n.startswith("_") and callable(getattr(_cls, _n)) and _n not in ("from_view",):
            VIEWMETHODS["view:%s%s.%s" % ("di" if _di else "", _view, _n)] = (_view, _n, _di)
CLASSMETHODS = ["ctor-with-attrs", "copy", "dual", "__lshift__", "cleanup", "__str__", "__contains__", "__len__", "__iter__", "__getitem__", "has_simplex",
                "is_frozen", "num_nodes", "num_edges", "nodes", "edges", "__getattr__-degree", "__getattr__-size", "__getstate__", "deepcopy", "pickle", "repr-views", "set-ops-on-views"]
METHODS = {"method:" + m: m for m in CLASSMETHODS}
NAMES = sorted(FUNCS) + sorted(STATS) + sorted(VIEWMETHODS) + sorted(METHODS)


@st.composite
def cases(draw, tier):
    # module-level functions carry most of the option combinations: three draws in five go to them
    name = draw(st.sampled_from(sorted(FUNCS))) if draw(st.integers(0, 4)) < 3 else draw(st.sampled_from(NAMES))
    cls = None
    if name.startswith("fn:"):
        p0 = list(inspect.signature(FUNCS[name]).parameters)[0]
        cls = "SC" if p0 in ("S", "SC") and draw(st.integers(0, 3)) else draw(st.sampled_from(["H", "H", "H", "SC", "DH"]))
    elif name.startswith(("stat:", "view:")):
        tab = STATS if name.startswith("stat:") else VIEWMETHODS
        cls = "DH" if tab[name][2] else draw(st.sampled_from(["H", "SC"]))
    else:
        cls = draw(st.sampled_from(["H", "SC", "DH"]))
    spec = draw(nets.net_spec(wide_labels=True, cls=cls, max_edges=6, allow_empty=draw(st.integers(0, 4)) == 0 and cls != "SC", nested=True, tuples=True))
    return {"fn": name, "spec": spec, "picks": draw(st.lists(st.integers(0, 1000), min_size=8, max_size=8))}


def strategy(tier):
    return cases(tier)


# --------------------------------------------------------------------------------------------
# argument registry (keyed by parameter name)

_SKIP = object()


def _node(H, k):
    ns = list(H.nodes)
    return ns[k % len(ns)] if ns else 0


def _edge(H, k):
    es = list(H.edges)
    return es[k % len(es)] if es else 0


def _present_order(H, k):
    """the order of one of the network's own edges (so that order-filtered functions have something to do)"""
    try:
        orders = sorted({len(m) - 1 for m in H.edges.members()})
    except Exception:  # noqa: BLE001
        orders = []
    return orders[(k // 2) % len(orders)] if orders else k % 4


def _pos(H, k):
    C = nets.clone(H)
    return xgi.circular_layout(C)


REG = {
    "order": lambda H, k, f: 1 if f == "simulate_simplicial_kuramoto" else _present_order(H, k) if k % 2 else (None if (k % 5 == 4 and f not in ("cut_to_order", "k_skeleton", "adjacency_tensor", "shuffle_hyperedges")) else k % 4),
    "max_order": lambda H, k, f: None if k % 3 == 0 else k % 4,
    "d": lambda H, k, f: k % 4,
    "n": lambda H, k, f: _node(H, k),
    "source": lambda H, k, f: _node(H, k),
    "nid1": lambda H, k, f: _node(H, k),
    "nid2": lambda H, k, f: _node(H, k + 1),
    "id_temp": lambda H, k, f: "__tmp__",
    "s": lambda H, k, f: 1 + k % 3,
    "sparse": lambda H, k, f: bool(k % 2),
    "weighted": lambda H, k, f: bool(k % 2),
    "index": lambda H, k, f: bool(k % 2),
    "normalized": lambda H, k, f: bool(k % 2),
    "rescale_per_node": lambda H, k, f: bool(k % 2),
    "ignore_singletons": lambda H, k, f: bool(k % 2),
    "exact": lambda H, k, f: bool(k % 2),
    "include_self": lambda H, k, f: bool(k % 2),
    "exclude_min_size": lambda H, k, f: bool(k % 2),
    "normalize": lambda H, k, f: bool(k % 2),
    "return_phantom_graph": lambda H, k, f: bool(k % 2),
    "equidistant": lambda H, k, f: bool(k % 2),
    "keep_isolates": lambda H, k, f: bool(k % 2),
    "hull": lambda H, k, f: bool(k % 2),
    "node_labels": lambda H, k, f: True if f == "draw_node_labels" else bool(k % 2),
    "hyperedge_labels": lambda H, k, f: True if f == "draw_hyperedge_labels" else bool(k % 2),
    "kind": lambda H, k, f: (["uniform", "top-2", "top-bottom"] if f == "degree_assortativity" else ["union", "min", "max"])[k % 3],
    "seed": lambda H, k, f: k,
    "p": lambda H, k, f: [0.0, 0.5, 1.0][k % 3],
    "pos": lambda H, k, f: _pos(H, k),
    "node_pos": lambda H, k, f: _pos(H, k),
    "orders": lambda H, k, f: [1, 2][: 1 + k % 2],
    "weights": lambda H, k, f: ([1, 0.5][: 1 + k % 2] if f == "multiorder_laplacian" else [None, "absolute", "normalized"][k % 3]),
    "k2": lambda H, k, f: 1,
    "k3": lambda H, k, f: 1,
    "timesteps": lambda H, k, f: 5,
    "n_steps": lambda H, k, f: 5,
    "dag": lambda H, k, f: xgi.to_encapsulation_dag(nets.clone(H)),
    "nodes": lambda H, k, f: list(H.nodes)[: 1 + k % 4],
    "edges": lambda H, k, f: list(H.edges)[: 1 + k % 4],
    "subset_types": lambda H, k, f: ["all", "immediate", "empirical"][k % 3],
    "min_size": lambda H, k, f: 1 + k % 3,
    "k": lambda H, k, f: (2 if f == "spectral_clustering" else None),
    "max_iter": lambda H, k, f: 10,
    "in_place": lambda H, k, f: False,
    "label_attribute": lambda H, k, f: ["label", "old"][k % 2],
    "num_samples": lambda H, k, f: 10,
    "cutoff": lambda H, k, f: 10,
    "collection_name": lambda H, k, f: ["", "c"][k % 2],
    "delimiter": lambda H, k, f: [" ", ",", "\t"][k % 3],
    "orientations": lambda H, k, f: None,
    "radius": lambda H, k, f: [None, 0.5, 0.05][k % 3] if f == "circular_layout" else _SKIP,
    "resolution": lambda H, k, f: [0.35, 1.0][k % 2],
    "omega": lambda H, k, f: (np.ones((sum(1 for m in H.edges.members() if len(m) == 2), 1)) if f == "simulate_simplicial_kuramoto" else _SKIP),
    "theta0": lambda H, k, f: np.zeros((sum(1 for m in H.edges.members() if len(m) == 2), 1)),
}
ALWAYS = {"in_place", "timesteps", "n_steps", "max_iter", "num_samples", "cutoff", "omega", "theta0"}
ALWAYS_FOR = {"draw_node_labels": {"node_labels"}, "draw_hyperedge_labels": {"hyperedge_labels"}, "simulate_simplicial_kuramoto": {"order"}}


def _node_swap_args(H, picks):
    """interdependent arguments: an order that is present and two nodes that both lie in edges of that order"""
    mem = H.edges.members(dtype=dict)
    orders = sorted({len(m) - 1 for m in mem.values()})
    order = None if (not orders or picks[2] % 3 == 0) else orders[picks[3] % len(orders)]
    pool = sorted({n for m in mem.values() if order is None or len(m) == order + 1 for n in m}, key=repr)
    if len(pool) < 2:
        return None
    a = pool[picks[4] % len(pool)]
    b = pool[(picks[4] + 1 + picks[5] % (len(pool) - 1)) % len(pool)]
    return [a, b], {"id_temp": "__tmp__", "order": order}


OVERRIDES = {"node_swap": _node_swap_args}


def synth(fname, f, H, picks, tmp):
    """(args, kwargs) for f(H, ...) or None when a required parameter has no registered strategy"""
    if fname in OVERRIDES and picks[6] % 4:
        try:
            r = OVERRIDES[fname](H, picks)
        except Exception:  # noqa: BLE001
            r = None
        if r is not None:
            return r
    ps = list(inspect.signature(f).parameters.values())[1:]
    args, kw = [], {}
    for i, p in enumerate(ps):
        if p.kind in (p.VAR_POSITIONAL, p.VAR_KEYWORD):
            continue
        k = picks[(i + 1) % len(picks)] + i
        required = p.default is inspect.Parameter.empty
        if p.name == "path":
            v = os.path.join(tmp, "out_%s" % fname)
        elif p.name in REG:
            v = REG[p.name](H, k, fname)
            if v is _SKIP:
                if required:
                    return None
                continue
        elif required:
            return None
        else:
            continue
        if required:
            args.append(v)
        elif p.name in ALWAYS or p.name in ALWAYS_FOR.get(fname, ()) or (picks[0] >> (i % 8)) & 1:
            kw[p.name] = v
    return args, kw


def consume(x):
    if inspect.isgenerator(x):
        return list(x)
    return x


def call_stat(H, view, name, picks):
    v = getattr(H, view)
    s = getattr(v, name)
    k = picks[1]
    if name == "attrs":
        s = s([None, "color", "w"][k % 3], missing=[None, 0][k % 2]) if k % 4 else s
    elif name in ("degree", "in_degree", "out_degree") and k % 3:
        s = s(order=k % 3) if k % 2 else s(weight="w")
    elif name in ("order", "size", "head_order", "head_size", "tail_order", "tail_size") and k % 3:
        s = s(degree=k % 3)
    elif name == "two_node_clustering_coefficient" and k % 2:
        s = s(kind=["union", "min", "max"][k % 3])
    out = [s.asdict(), s.aslist()]
    for form in ("asnumpy", "aspandas", "max", "min", "sum", "mean", "median", "std", "var", "argmax", "argmin", "argsort", "ashist", "unique"):
        try:
            r = getattr(s, form)
            out.append(r() if callable(r) else r)
        except Exception:  # noqa: BLE001  (non-numeric stats cannot be aggregated: irrelevant here)
            pass
    ids = list(v)
    if ids:
        out.append(s[ids[k % len(ids)]])
    v.multi([name, s]).asdict()
    v.filterby(s, 1, ["eq", "geq", "lt"][k % 3]) if name != "attrs" else None
    return out


def call_view(H, view, name, picks):
    v = getattr(H, view)
    k = picks[1]
    ids = list(v)
    one = ids[k % len(ids)] if ids else 0
    stat = "degree" if view == "nodes" else "size"
    m = getattr(v, name)
    if name == "filterby":
        return list(m(stat, k % 3, ["eq", "neq", "lt", "gt", "leq", "geq"][k % 6]))
    if name == "filterby_attr":
        return list(m(["color", "w", "tag"][k % 3], k % 3, ["eq", "neq"][k % 2], missing=[None, 1][k % 2]))
    if name == "neighbors":
        return m(one, s=1 + k % 2)
    if name == "lookup":
        other = H._node if view == "edges" else H._edge
        return list(m(list(other)[: 1 + k % 3]))
    if name in ("memberships", "members", "dimembers", "dimemberships", "head", "tail", "sources", "targets"):
        r = [m(), m(one)] if ids else [m()]
        if "dtype" in inspect.signature(m).parameters:
            r.append(m(dtype=dict))
        for x in r:  # the returned containers must be copies: mutate them
            _scribble(x)
        return r
    if name == "multi":
        return m([stat]).asdict()
    if name == "get":
        return m(one)
    if name == "isdisjoint":
        return m(v)
    if name in ("items", "keys", "values"):
        r = list(m())
        return r
    if name == "isolates" and view == "nodes" and "ignore_singletons" in inspect.signature(m).parameters:
        return [list(m(ignore_singletons=b)) for b in (False, True)]  # a two-valued option: both, in one case
    if name == "maximal":
        return [list(m(strict=b)) for b in (False, True)]
    return consume(m())


def _scribble(x):
    """mutate a returned container in place (a read-only accessor must have handed out a copy)"""
    try:
        if isinstance(x, dict):
            for v in x.values():
                _scribble(v)
            x["__scribble__"] = 1
        elif isinstance(x, list):
            for v in x:
                _scribble(v)
            x.append("__scribble__")
        elif isinstance(x, set):
            x.add("__scribble__")
        elif isinstance(x, tuple):
            for v in x:
                _scribble(v)
    except Exception:  # noqa: BLE001
        pass


CHEAP_STATS = {"degree", "in_degree", "out_degree", "size", "order", "head_size", "tail_size", "head_order", "tail_order", "attrs", "average_neighbor_degree"}
OTHERS = []  # (second input network, its deep snapshot before the call) registered by a call, checked by run_case


def call_method(H, m, picks):
    import pickle

    k = picks[1]
    if m == "ctor-with-attrs":
        # a network handed to a constructor together with keyword attributes of the new network is an input, not the target
        out = [type(H)(H, name="made-from", tag=k)]
        if isinstance(H, xgi.Hypergraph) and not isinstance(H, xgi.SimplicialComplex):
            out.append(xgi.SimplicialComplex(H, name="closure", tag=k))
        if isinstance(H, (xgi.SimplicialComplex, xgi.DiHypergraph)):
            out.append(xgi.Hypergraph(H, name="flattened", tag=k))
        return out
    if m == "copy":
        return H.copy()
    if m == "dual":
        return H.dual()
    if m == "__lshift__":
        # the other operand shares nodes and edge IDs with H but carries other attribute values on them, plus something of its own;
        # it is an input as well: it is registered and compared afterwards, and the union is formed in both orders
        other = nets.clone(H)
        try:
            for i, n in enumerate(list(other.nodes)):
                other.nodes[n]["__rhs__"] = i
                if i % 2:
                    other.nodes[n]["color"] = "rhs"
            for i, e in enumerate(list(other.edges)):
                other.edges[e]["__rhs__"] = i
            other.add_node("__only_rhs__", side="rhs")
            other["__rhs__"] = k
        except Exception:  # noqa: BLE001
            pass
        OTHERS.append((other, nets.snap_deep(other)))
        r1 = H << other
        r2 = other << H
        return r1, r2
    if m == "cleanup":
        if isinstance(H, xgi.DiHypergraph):
            return H.cleanup(isolates=bool(k % 2), relabel=bool(k % 3), in_place=False)
        if isinstance(H, xgi.SimplicialComplex):
            return H.cleanup(isolates=bool(k % 2), connected=bool(k % 3), relabel=bool(k % 5), in_place=False)
        return H.cleanup(isolates=bool(k % 2), singletons=bool(k % 3), multiedges=bool(k % 5), connected=bool(k % 7 > 2), relabel=bool(k % 11 > 4), in_place=False)
    if m == "__str__":
        return str(H)
    if m == "__contains__":
        return (_node(H, k) in H, [1] in H, None in H)
    if m == "__len__":
        return len(H)
    if m == "__iter__":
        return list(H)
    if m == "__getitem__":
        try:
            return H["name"]
        except xgi.exception.XGIError:
            return None
    if m == "has_simplex":
        return H.has_simplex(list(H.nodes)[:2])
    if m in ("is_frozen", "num_nodes", "num_edges"):
        return getattr(H, m)
    if m in ("nodes", "edges"):
        v = getattr(H, m)
        return (list(v), len(v), dict(v.items()) if hasattr(v, "items") else None)
    if m == "__getattr__-degree":
        return H.degree()
    if m == "__getattr__-size":
        return H.size()
    if m == "__getstate__":
        s = H.__getstate__()
        return list(s)
    if m == "deepcopy":
        return copy.deepcopy(H)
    if m == "pickle":
        return pickle.loads(pickle.dumps(H))
    if m == "repr-views":
        return (repr(H.nodes), repr(H.edges), str(H.nodes), str(H.edges))
    if m == "set-ops-on-views":
        a, b = H.nodes, H.edges
        return (list(a & a), list(a | a), list(a - a), list(b ^ b), a == a, a <= a, list(a([_node(H, k)])) if len(a) else None)
    raise ValueError(m)


def run_case(case, ctx):
    name = case["fn"]
    H = nets.build(case["spec"])
    # make the next automatic ID non-trivial and the counter observable
    picks = case["picks"]
    before = nets.snap_deep(H)
    tmp = tempfile.mkdtemp(prefix="xgi_c08_")
    status = "returned"
    del OTHERS[:]
    try:
        try:
            if name.startswith("fn:"):
                f = FUNCS[name]
                sy = synth(name[3:], f, H, picks, tmp)
                if sy is None:
                    ctx.event("uncovered:" + name)
                    return
                consume(f(H, *sy[0], **sy[1]))
            elif name.startswith("stat:"):
                view, sn, di = STATS[name]
                call_stat(H, view, sn, picks)
            elif name.startswith("view:"):
                view, mn, di = VIEWMETHODS[name]
                call_view(H, view, mn, picks)
            else:
                call_method(H, METHODS[name], picks)
        except Exception as e:  # noqa: BLE001   whether the call returns or raises is irrelevant here
            status = "raised"
            ctx.event("raised-type:" + type(e).__name__)
        finally:
            plt.close("all")
        after = nets.snap_deep(H)
        diff = nets.diff_deep(before, after)
        ctx.check(not diff, ("mutated", name, "+".join(diff)), lambda: "%s (%s) changed %r: before %r after %r" % (
            name, status, diff, {k: before[k] for k in diff}, {k: after[k] for k in diff}))
        for other, ob in OTHERS:
            od = nets.diff_deep(ob, nets.snap_deep(other))
            ctx.check(not od, ("mutated", name, "second-operand", "+".join(od)), lambda: "%s (%s) changed its second input: %r" % (name, status, od))
        ctx.event(status + ":" + name)
        # every cheap accessor of this class on the same network as well (all view methods and statistics, two-valued options
        # both ways): one drawn callable per case would visit each of them only a few dozen times per run
        if not diff and not case.get("no_batch"):
            di = isinstance(H, xgi.DiHypergraph)
            batch = [n for n, t in VIEWMETHODS.items() if bool(t[2]) == di and n != name] + [n for n, t in STATS.items() if bool(t[2]) == di and n != name and t[1] in CHEAP_STATS]

            # the class-level accessors too (copy, cleanup(in_place=False), <<, pickling, ...); not dual of a complex in the batch:
            # the dual of a simplicial complex is closed downward again and can be exponentially large
            batch += [n for n in METHODS if n != name and not (n == "method:dual" and isinstance(H, xgi.SimplicialComplex))]

            def run_batch(G, each):
                for nm in batch:
                    try:
                        if nm.startswith("method:"):
                            call_method(G, METHODS[nm], picks)
                        elif nm.startswith("stat:"):
                            call_stat(G, STATS[nm][0], STATS[nm][1], picks)
                        else:
                            call_view(G, VIEWMETHODS[nm][0], VIEWMETHODS[nm][1], picks)
                    except Exception:  # noqa: BLE001
                        pass
                    if each:
                        now = nets.snap_deep(G)
                        d2 = nets.diff_deep(before, now)
                        if d2:
                            return nm, d2, now
                return None

            run_batch(H, False)  # one snapshot for the whole batch ...
            if nets.diff_deep(before, nets.snap_deep(H)):
                hit = run_batch(nets.build(case["spec"]), True)  # ... and, if it differs, a second pass on a fresh build that names the accessor
                if hit is not None:
                    nm, d2, now = hit
                    ctx.fail(("mutated", nm, "+".join(d2)), "%s (batch of accessors after %s) changed %r: before %r after %r" % (nm, name, d2, {k: before[k] for k in d2}, {k: now[k] for k in d2}))
                else:
                    ctx.fail(("mutated", "accessor-batch", "not-attributable"), "the batch of view methods and statistics changed the network, no single accessor does on a fresh build")
        ctx.mark(status == "returned" and len(before["edges"]) >= 2)
    finally:
        shutil.rmtree(tmp, ignore_errors=True)


# --------------------------------------------------------------------------------------------
# enumerated sweep: every callable on two fixed networks of each class it may take

FIXED = {
    "H": [
        {"cls": "H", "kind": "int", "nodes": [[9, {"x": {"y": [1]}}], [8, {}]], "edges": [[3, [1, 2, 3], {"weight": 2, "c": [1]}], [1, [3, 4], {}], [0, [4, 5, 1], {}], [7, [5], {}], [8, [3, 4], {"w": 1}]], "net": {"name": "t", "l": [1]}},
        {"cls": "H", "kind": "str", "nodes": [], "edges": [[None, ["a", "b", "c"], {}], [None, ["b", "c", "d"], {}], [None, ["c", "d", "e"], {}], [None, ["a", "e"], {}]], "net": {}},
        {"cls": "H", "kind": "int", "nodes": [], "edges": [[None, [0, 1, 2], {}], [None, [1, 2, 3], {}], [None, [2, 3, 4], {}], [None, [0, 3, 4], {}]], "net": {}},
        # node-less but not blank: empty edges with attributes, network attributes (len(H) == 0, bool(H) is False)
        {"cls": "H", "kind": "int", "nodes": [], "edges": [["e", [], {"w": 1}], [None, [], {}]], "net": {"name": "nodeless"}},
        # an isolated node, an empty edge and a singleton next to ordinary edges; edge sizes growing along the insertion order
        {"cls": "H", "kind": "int", "nodes": [[7, {"c": 1}]], "edges": [[None, [1, 2], {}], [None, [], {"w": 0}], [None, [3], {}], [None, [3, 4, 5], {}], [None, [1, 2], {"w": 2}], [None, [5, 6, 1, 2], {}]], "net": {}},
    ],
    "SC": [
        {"cls": "SC", "kind": "int", "nodes": [[9, {}]], "edges": [[5, [1, 2, 3], {"w": 2}], [None, [3, 4], {}], [None, [5, 6], {}]], "net": {"name": "s"}},
        {"cls": "SC", "kind": "int", "nodes": [], "edges": [[None, [0, 1, 2, 3], {}], [None, [3, 4], {}]], "net": {}},
    ],
    "DH": [
        {"cls": "DH", "kind": "int", "nodes": [[9, {}]], "edges": [[2, [1, 2], [3], {"w": 1}], [0, [3], [4, 1], {}], [None, [5], [], {}]], "net": {"name": "d"}},
        {"cls": "DH", "kind": "str", "nodes": [], "edges": [[None, ["a"], ["b", "c"], {}], [None, ["b"], ["a"], {}]], "net": {}},
        {"cls": "DH", "kind": "int", "nodes": [], "edges": [["e", [], [], {"w": 1}]], "net": {"name": "nodeless"}},
    ],
}


def _sweep(tier, seed, run):
    n = 0
    for name in NAMES:
        if name.startswith(("stat:", "view:")):
            tab = STATS if name.startswith("stat:") else VIEWMETHODS
            classes = ["DH"] if tab[name][2] else ["H", "SC"]
        else:
            classes = ["H", "SC", "DH"]
        for cls in classes:
            for j, spec in enumerate(FIXED[cls]):
                run({"fn": name, "spec": spec, "picks": [(seed * 7 + j * 13 + i * 5) % 1000 for i in range(8)]})
                n += 1
    return {"callables_enumerated": len(NAMES), "public_functions": len(FUNCS), "stats": len(STATS), "view_methods": len(VIEWMETHODS),
            "class_methods": len(METHODS), "sweep_calls": n, "sweep_exhaustive_over_callables": True}


EXTRA = [_sweep]


def summarise(events):
    ret = {k[9:]: v for k, v in events.items() if k.startswith("returned:")}
    exc = {k[7:]: v for k, v in events.items() if k.startswith("raised:")}
    unc = sorted(k[10:] for k in events if k.startswith("uncovered:"))
    return {
        "per_callable_returned_raised": {n: [ret.get(n, 0), exc.get(n, 0)] for n in NAMES},
        "callables_never_returned": sorted(n for n in NAMES if not ret.get(n) and n not in unc),
        "uncovered_callables": unc,
    }
