"""C04 - automatic edge IDs are always fresh; adding never overwrites (provenance x history)."""
import copy
import inspect
import os
import pickle
import shutil
import tempfile
import warnings

import networkx as nx
import numpy as np
import pandas as pd
from hypothesis import strategies as st

import xgi

from .. import dhops, hops, nets, scops
from ..nets import LIBERR

PID = "C04"
RULE = (
    "case = (builder name, base network spec whose explicit edge IDs include 0, decreasing, gapped, digit-string, "
    "numpy-int or integer-valued-float IDs, seed) + 1-10 ops mixing automatic additions, explicit new IDs, explicit "
    "existing IDs and IDs at / just above the counter (int, float, numpy int), all bulk formats, add_node_to_edge, removals and calls that raise half-way (None members), followed by 0-4 plain automatic additions; the builder (constructor input type, from_* "
    "converter, read_* through a temp file, generator, copy/pickle/deepcopy, relabelling, dual, <<, subhypergraph copy, "
    "cleanup, ...) produces the network the additions are applied to. Around every addition: every old ID keeps its "
    "members and attributes, the number of new IDs is what the reference model adds, an existing explicit ID warns and "
    "A third of the cases go straight from the builder to 1-6 plain additions with automatic IDs. "
    "changes nothing, integrity holds. non-trivial = the built network has an int-like ID equal to 0 or >= its number of "
    "edges and >=2 additions with automatic IDs returned; distinct = distinct canonical JSON"
)
BUDGET = {"quick": 6400, "thorough": 120000}
ASSUMPTIONS = [
    "the expected number of new IDs per call comes from the C05 reference models (hops/dhops/scops.Model)",
    "a builder that raises on the drawn base network is counted (class 'builder-raised:<name>') and not judged here",
    "the builder registry is cross-checked against introspection of the public namespace; unregistered network-returning callables are listed in the evidence (coverage.unregistered_builders)",
]

H_ADD = {"add_edge", "add_edges_from", "add_weighted_edges_from", "add_node_to_edge", "update", "remove_edge", "remove_edges_from", "merge_duplicate_edges", "remove_node"}
DH_ADD = {"add_edge", "add_edges_from", "add_node_to_edge", "remove_edge", "remove_edges_from", "remove_node"}
SC_ADD = {"add_simplex", "add_simplices_from", "add_weighted_simplices_from", "add_edge", "add_edges_from", "remove_simplex_id", "remove_simplex_ids_from", "remove_node"}

# --------------------------------------------------------------------------------------------
# builders: name -> (base class needed, function(base network, seed, tmpdir) -> network)


def _members(H):
    return H.edges.members(dtype=dict)


def _write(tmp, name, text):
    p = os.path.join(tmp, name)
    with open(p, "w") as f:
        f.write(text)
    return p


def _int_labels(H):
    """relabelled copy with int node labels and int edge IDs 'like' the originals where they are int-like"""
    return H


def _bip_graph(H, edges_first):
    G = nx.Graph()
    ns = [("n", n) for n in H.nodes]
    es = [("e", e) for e in H.edges]
    if edges_first:
        G.add_nodes_from(es, bipartite=1)
        G.add_nodes_from(ns, bipartite=0)
    else:
        G.add_nodes_from(ns, bipartite=0)
        G.add_nodes_from(es, bipartite=1)
    for e, m in _members(H).items():
        for n in m:
            G.add_edge(("e", e), ("n", n)) if edges_first else G.add_edge(("n", n), ("e", e))
    return G


def _plain_bip_graph(H):
    """bipartite graph whose hyperedge vertices carry the original (int) edge IDs"""
    G = nx.Graph()
    G.add_nodes_from([("n", n) for n in H.nodes], bipartite=0)
    G.add_nodes_from(list(H.edges), bipartite=1)
    for e, m in _members(H).items():
        for n in m:
            G.add_edge(("n", n), e)
    return G


def _di_bip_graph(DH):
    G = nx.DiGraph()
    G.add_nodes_from([("n", n) for n in DH.nodes], bipartite=0)
    G.add_nodes_from(list(DH.edges), bipartite=1)
    for e, (t, h) in DH.edges.dimembers(dtype=dict).items():
        for n in t:
            G.add_edge(("n", n), e)
        for n in h:
            G.add_edge(e, ("n", n))
    return G


def _jsonable(H):
    return all(isinstance(x, (int, str)) and not isinstance(x, bool) for x in list(H.nodes) + list(H.edges))


def _inc(H):
    I = xgi.to_incidence_matrix(H, sparse=False)
    if I.shape[0] == 0 or I.shape[1] == 0:
        raise ValueError("degenerate incidence matrix")
    return I


def _need_int_ids(H):
    if not all(isinstance(e, (int, np.integer)) for e in H.edges):
        raise ValueError("needs int ids")


def _rd_bip(H, seed, tmp):
    _need_int_ids(H)
    if not all(isinstance(n, (int, np.integer)) for n in H.nodes):
        raise ValueError("needs int nodes")
    p = os.path.join(tmp, "b.txt")
    xgi.write_bipartite_edgelist(H, p)
    return xgi.read_bipartite_edgelist(p, nodetype=int, edgetype=int)


def _rd_json(H, seed, tmp):
    if not _jsonable(H):
        raise ValueError("labels not JSON-able")
    p = os.path.join(tmp, "j.json")
    xgi.write_json(H, p)
    nt = int if all(isinstance(n, int) for n in H.nodes) else str
    et = int if all(isinstance(e, int) for e in H.edges) else str
    return xgi.read_json(p, nodetype=nt, edgetype=et)


def _rd_hif(H, seed, tmp):
    if not _jsonable(H):
        raise ValueError("labels not JSON-able")
    p = os.path.join(tmp, "h.json")
    xgi.write_hif(H, p)
    return xgi.read_hif(p)


def _hgdict(H, seed, tmp):
    if not _jsonable(H):
        raise ValueError("labels not JSON-able")
    nt = int if all(isinstance(n, int) for n in H.nodes) else str
    et = int if all(isinstance(e, int) for e in H.edges) else str
    return xgi.from_hypergraph_dict(xgi.to_hypergraph_dict(H), nodetype=nt, edgetype=et)


def _merge_new(H, seed, tmp):
    H = H.copy()
    ms = list(_members(H).values())
    if ms:
        H.add_edge(list(ms[0]) or [0])
    H.merge_duplicate_edges(rename="new")
    return H


def _ante(H, seed, tmp):
    G = xgi.Hypergraph()
    for e, m in _members(H).items():
        for n in m:
            G.add_node_to_edge(e, n)
    return G


def _deg_dict(H):
    return {n: max(1, d) for n, d in H.nodes.degree.asdict().items()}, {e: max(1, s) for e, s in H.edges.size.asdict().items()}


def _chung_lu(H, seed, tmp):
    k1, k2 = _deg_dict(H)
    if not k1 or not k2:
        raise ValueError("empty")
    # the model needs equal sums: pad the smaller side
    d = sum(k1.values()) - sum(k2.values())
    if d > 0:
        k2[next(iter(k2))] += d
    elif d < 0:
        k1[next(iter(k1))] -= d
    return xgi.chung_lu_hypergraph(k1, k2, seed=seed)


def _dcsbm(H, seed, tmp):
    k1, k2 = _deg_dict(H)
    if not k1 or not k2:
        raise ValueError("empty")
    d = sum(k1.values()) - sum(k2.values())
    if d > 0:
        k2[next(iter(k2))] += d
    elif d < 0:
        k1[next(iter(k1))] -= d
    g1 = {n: i % 2 for i, n in enumerate(k1)}
    g2 = {e: i % 2 for i, e in enumerate(k2)}
    tot = sum(k1.values())
    omega = np.array([[tot / 2, tot / 4], [tot / 4, tot / 2]])
    omega = omega * (tot / omega.sum())
    return xgi.dcsbm_hypergraph(k1, k2, g1, g2, omega, seed=seed)


def _fill_di(d):
    D2 = xgi.DiHypergraph()
    xgi.to_dihypergraph(d, create_using=D2)  # fills the given instance (returns None by design)
    return D2


def _flag(S, seed, tmp):
    G = nx.gnp_random_graph(6, 0.6, seed=seed)
    return xgi.flag_complex(G, max_order=3)


B = {
    # ---- Hypergraph provenance
    "H.ctor-list": ("H", lambda H, s, t: xgi.Hypergraph([list(m) for m in _members(H).values()])),
    "H.ctor-dict": ("H", lambda H, s, t: xgi.Hypergraph({e: list(m) for e, m in _members(H).items()})),
    "H.ctor-df": ("H", lambda H, s, t: xgi.Hypergraph(xgi.to_bipartite_pandas_dataframe(H))),
    "H.ctor-ndarray": ("H", lambda H, s, t: xgi.Hypergraph(_inc(H))),
    "H.ctor-sparse": ("H", lambda H, s, t: xgi.Hypergraph(xgi.to_incidence_matrix(H, sparse=True))),
    "H.ctor-H": ("H", lambda H, s, t: xgi.Hypergraph(H)),
    "H.ctor-SC": ("SC", lambda S, s, t: xgi.Hypergraph(S)),
    "H.ctor-DH": ("DH", lambda D, s, t: xgi.Hypergraph(D)),
    "H.from_incidence_matrix": ("H", lambda H, s, t: xgi.from_incidence_matrix(_inc(H))),
    "H.from_bipartite_edgelist": ("H", lambda H, s, t: xgi.from_bipartite_edgelist(xgi.to_bipartite_edgelist(H))),
    "H.from_bipartite_graph": ("H", lambda H, s, t: xgi.from_bipartite_graph(_plain_bip_graph(H))),
    "H.from_bipartite_graph-index": ("H", lambda H, s, t: xgi.from_bipartite_graph(xgi.to_bipartite_graph(H))),
    "H.from_bipartite_graph-dual": ("H", lambda H, s, t: xgi.from_bipartite_graph(_plain_bip_graph(H), dual=True)),
    "H.from_hif_dict": ("H", lambda H, s, t: xgi.from_hif_dict(xgi.to_hif_dict(H))),
    "H.from_hypergraph_dict": ("H", _hgdict),
    "H.from_hyperedge_dict": ("H", lambda H, s, t: xgi.from_hyperedge_dict(xgi.to_hyperedge_dict(H))),
    "H.from_hyperedge_list": ("H", lambda H, s, t: xgi.from_hyperedge_list(xgi.to_hyperedge_list(H))),
    "H.from_bipartite_pandas_dataframe": ("H", lambda H, s, t: xgi.from_bipartite_pandas_dataframe(xgi.to_bipartite_pandas_dataframe(H))),
    "H.to_hypergraph-dict": ("H", lambda H, s, t: xgi.to_hypergraph({e: list(m) for e, m in _members(H).items()})),
    "H.read_hif": ("H", _rd_hif),
    "H.read_json": ("H", _rd_json),
    "H.read_bipartite_edgelist": ("H", _rd_bip),
    "H.read_edgelist": ("H", lambda H, s, t: (xgi.write_edgelist(H, os.path.join(t, "e.txt")), xgi.read_edgelist(os.path.join(t, "e.txt")))[1]),
    "H.read_incidence_matrix": ("H", lambda H, s, t: (_inc(H), xgi.write_incidence_matrix(H, os.path.join(t, "i.txt")), xgi.read_incidence_matrix(os.path.join(t, "i.txt")))[2]),
    "H.copy": ("H", lambda H, s, t: H.copy()),
    "H.copy-of-copy": ("H", lambda H, s, t: H.copy().copy()),
    "H.pickle": ("H", lambda H, s, t: pickle.loads(pickle.dumps(H))),
    "H.deepcopy": ("H", lambda H, s, t: copy.deepcopy(H)),
    "H.convert_labels_to_integers": ("H", lambda H, s, t: xgi.convert_labels_to_integers(H)),
    "H.convert_labels_to_integers-in_place": ("H", lambda H, s, t: (xgi.convert_labels_to_integers(H, in_place=True), H)[1]),
    "H.dual": ("H", lambda H, s, t: H.dual()),
    "H.lshift": ("H", lambda H, s, t: H << H),
    "H.subhypergraph-copy": ("H", lambda H, s, t: xgi.subhypergraph(H, nodes=list(H.nodes)[: max(1, len(H.nodes) - 1)]).copy()),
    "H.cleanup-copy": ("H", lambda H, s, t: H.cleanup(in_place=False, relabel=False, connected=False)),
    "H.cleanup-copy-relabel": ("H", lambda H, s, t: H.cleanup(in_place=False, connected=False)),
    "H.cleanup-in_place": ("H", lambda H, s, t: (H.cleanup(connected=False), H)[1]),
    "H.largest_connected_hypergraph": ("H", lambda H, s, t: xgi.largest_connected_hypergraph(H)),
    "H.merge_duplicate_edges-new": ("H", _merge_new),
    "H.complement": ("H", lambda H, s, t: xgi.complement(H)),
    "H.complete_hypergraph": ("H", lambda H, s, t: xgi.complete_hypergraph(4, order=1 + s % 2)),
    "H.fast_random_hypergraph": ("H", lambda H, s, t: xgi.fast_random_hypergraph(6, [0.4, 0.2], seed=s)),
    "H.random_hypergraph": ("H", lambda H, s, t: xgi.random_hypergraph(6, [0.4, 0.2], seed=s)),
    "H.chung_lu_hypergraph": ("H", _chung_lu),
    "H.dcsbm_hypergraph": ("H", _dcsbm),
    "H.watts_strogatz_hypergraph": ("H", lambda H, s, t: xgi.watts_strogatz_hypergraph(8, 3, 2, 1, 0.5, seed=s)),
    "H.ring_lattice": ("H", lambda H, s, t: xgi.ring_lattice(8, 3, 2, 1)),
    "H.star_clique": ("H", lambda H, s, t: xgi.star_clique(4, 3, 2)),
    "H.sunflower": ("H", lambda H, s, t: xgi.sunflower(3, 1, 3)),
    "H.uniform_erdos_renyi_hypergraph": ("H", lambda H, s, t: xgi.uniform_erdos_renyi_hypergraph(6, 3, 0.3, seed=s)),
    "H.uniform_HSBM": ("H", lambda H, s, t: xgi.uniform_HSBM(6, 2, np.array([[0.8, 0.2], [0.2, 0.8]]), [3, 3], seed=s)),
    "H.uniform_HPPM": ("H", lambda H, s, t: xgi.uniform_HPPM(6, 2, 2, 0.5, rho=0.5, seed=s)),
    "H.uniform_hypergraph_configuration_model": ("H", lambda H, s, t: xgi.uniform_hypergraph_configuration_model({i: 2 for i in range(6)}, 3, seed=s)),
    "H.shuffle_hyperedges": ("H", lambda H, s, t: xgi.shuffle_hyperedges(H, (xgi.max_edge_order(H) or 1), 1.0, seed=s)),
    "H.node_swap": ("H", lambda H, s, t: xgi.node_swap(H, list(H.nodes)[0], list(H.nodes)[-1], id_temp="__tmp__")),
    "H.from_max_simplices": ("SC", lambda S, s, t: xgi.from_max_simplices(S)),
    "H.cut_to_order": ("H", lambda H, s, t: xgi.cut_to_order(H, max(0, (xgi.max_edge_order(H) or 1) - 1))),
    "H.add_node_to_edge-built": ("H", _ante),
    "H.trivial_hypergraph": ("H", lambda H, s, t: xgi.trivial_hypergraph(3)),
    "H.empty_hypergraph": ("H", lambda H, s, t: xgi.empty_hypergraph()),
    "H.clear-then-reuse": ("H", lambda H, s, t: (H.clear(), H)[1]),
    "H.clear_edges-then-reuse": ("H", lambda H, s, t: (H.clear_edges(), H)[1]),
    # ---- DiHypergraph provenance
    "DH.ctor-list": ("DH", lambda D, s, t: xgi.DiHypergraph([(list(a), list(b)) for a, b in D.edges.dimembers()])),
    "DH.ctor-dict": ("DH", lambda D, s, t: xgi.DiHypergraph({e: (list(a), list(b)) for e, (a, b) in D.edges.dimembers(dtype=dict).items()})),
    "DH.ctor-DH": ("DH", lambda D, s, t: xgi.DiHypergraph(D)),
    "DH.copy": ("DH", lambda D, s, t: D.copy()),
    "DH.pickle": ("DH", lambda D, s, t: pickle.loads(pickle.dumps(D))),
    "DH.deepcopy": ("DH", lambda D, s, t: copy.deepcopy(D)),
    "DH.from_bipartite_graph": ("DH", lambda D, s, t: xgi.from_bipartite_graph(_di_bip_graph(D))),
    "DH.from_bipartite_graph-index": ("DH", lambda D, s, t: xgi.from_bipartite_graph(xgi.to_bipartite_graph(D))),
    "DH.from_bipartite_edgelist": ("DH", lambda D, s, t: xgi.from_bipartite_edgelist(xgi.to_bipartite_edgelist(D))),
    "DH.from_hif_dict": ("DH", lambda D, s, t: xgi.from_hif_dict(xgi.to_hif_dict(D))),
    "DH.read_hif": ("DH", _rd_hif),
    "DH.convert_labels_to_integers": ("DH", lambda D, s, t: xgi.convert_labels_to_integers(D)),
    "DH.cleanup-copy": ("DH", lambda D, s, t: D.cleanup(in_place=False, relabel=False)),
    "DH.cleanup-in_place": ("DH", lambda D, s, t: (D.cleanup(), D)[1]),
    "DH.to_dihypergraph-dict": ("DH", lambda D, s, t: _fill_di({e: (list(a), list(b)) for e, (a, b) in D.edges.dimembers(dtype=dict).items()})),
    "DH.empty_dihypergraph": ("DH", lambda D, s, t: xgi.empty_dihypergraph()),
    # ---- SimplicialComplex provenance
    "SC.ctor-list": ("SC", lambda S, s, t: xgi.SimplicialComplex([list(m) for m in _members(S).values()])),
    "SC.ctor-dict": ("SC", lambda S, s, t: xgi.SimplicialComplex({e: list(m) for e, m in _members(S).items()})),
    "SC.ctor-SC": ("SC", lambda S, s, t: xgi.SimplicialComplex(S)),
    "SC.ctor-H": ("H", lambda H, s, t: xgi.SimplicialComplex(H)),
    "SC.ctor-df": ("SC", lambda S, s, t: xgi.SimplicialComplex(xgi.to_bipartite_pandas_dataframe(S))),
    "SC.copy": ("SC", lambda S, s, t: S.copy()),
    "SC.pickle": ("SC", lambda S, s, t: pickle.loads(pickle.dumps(S))),
    "SC.deepcopy": ("SC", lambda S, s, t: copy.deepcopy(S)),
    "SC.from_hif_dict": ("SC", lambda S, s, t: xgi.from_hif_dict(xgi.to_hif_dict(S))),
    "SC.read_hif": ("SC", _rd_hif),
    "SC.from_simplex_dict": ("SC", lambda S, s, t: xgi.from_simplex_dict({e: list(m) for e, m in _members(S).items()})),
    "SC.convert_labels_to_integers": ("SC", lambda S, s, t: xgi.convert_labels_to_integers(S)),
    "SC.cleanup-copy": ("SC", lambda S, s, t: S.cleanup(in_place=False, relabel=False, connected=False)),
    "SC.cleanup-in_place": ("SC", lambda S, s, t: (S.cleanup(connected=False), S)[1]),
    "SC.k_skeleton": ("SC", lambda S, s, t: xgi.k_skeleton(S, max(0, (xgi.max_edge_order(S) or 1) - 1))),
    "SC.cut_to_order": ("SC", lambda S, s, t: xgi.cut_to_order(S, max(0, (xgi.max_edge_order(S) or 1) - 1))),
    "SC.flag_complex": ("SC", _flag),
    "SC.flag_complex_d2": ("SC", lambda S, s, t: xgi.flag_complex_d2(nx.gnp_random_graph(6, 0.6, seed=s))),
    "SC.random_flag_complex": ("SC", lambda S, s, t: xgi.random_flag_complex(6, 0.6, max_order=2, seed=s)),
    "SC.random_flag_complex_d2": ("SC", lambda S, s, t: xgi.random_flag_complex_d2(6, 0.6, seed=s)),
    "SC.random_simplicial_complex": ("SC", lambda S, s, t: xgi.random_simplicial_complex(6, [0.5, 0.4], seed=s)),
    "SC.largest_connected_hypergraph": ("SC", lambda S, s, t: xgi.largest_connected_hypergraph(S)),
    "SC.subhypergraph-copy": ("SC", lambda S, s, t: xgi.subhypergraph(S, nodes=list(S.nodes)).copy()),
    "SC.empty_simplicial_complex": ("SC", lambda S, s, t: xgi.empty_simplicial_complex()),
    "SC.clear-then-reuse": ("SC", lambda S, s, t: (S.clear(), S)[1]),
}
BNAMES = sorted(B)

IDCASTS = [None, None, None, "np", "float"]


def cast_ids(spec, how):
    if how is None:
        return spec
    spec = copy.deepcopy(spec)
    for e in spec["edges"]:
        if isinstance(e[0], int):
            e[0] = np.int64(e[0]) if how == "np" else float(e[0])
    return spec


@st.composite
def cases(draw, tier):
    name = draw(st.sampled_from(BNAMES))
    basecls = B[name][0]
    kind = draw(st.sampled_from(["int", "gap"])) if draw(st.integers(0, 3)) else draw(nets.kinds)
    spec = draw(nets.net_spec(cls=basecls, kind=kind, max_edges=5, min_edges=1, allow_empty=(basecls != "SC" and draw(st.integers(0, 3)) == 0),
                              ids=draw(st.sampled_from(["perm", "gap", "zero-desc", "zero-desc", "str", "mixed", "auto", "big"]))))
    idcast = draw(st.sampled_from(IDCASTS))
    outcls = name.split(".")[0]
    n = 10 if tier == "quick" else 14
    if outcls == "H":
        op = hops.op_strategy(kind, none_p=True, bulk_empty=False, heavy=False, only=H_ADD)
    elif outcls == "DH":
        op = dhops.op_strategy(kind, none_p=True, only=DH_ADD)
    else:
        op = scops.op_strategy(kind, none_p=True, unique_bulk=True, only=SC_ADD)
    # a third of the cases go straight from the builder to the plain additions (nothing in between that could repair a counter)
    ops = draw(st.one_of(st.just([]), st.lists(op, min_size=1, max_size=4), st.lists(op, min_size=4, max_size=n)))
    # the core scenario: after whatever happened, a few plain additions with automatic IDs
    alph = nets.NODE_KINDS[kind]
    for _ in range(draw(st.integers(1, 6))):
        m = draw(st.lists(st.sampled_from(alph), min_size=1, max_size=3, unique=True))
        if outcls == "H":
            ops.append(["add_edge", m, "list", None, {}])
        elif outcls == "DH":
            ops.append(["add_edge", [m[:1], m[1:]], "list", "tuple", None, {}])
        else:
            ops.append(["add_simplex", m, "list", None, {}])
    return {"builder": name, "kind": kind, "base": spec, "idcast": idcast, "seed": draw(st.integers(0, 10**6)), "ops": ops}


def strategy(tier):
    return cases(tier)


def is_intlike(e):
    if isinstance(e, (bool, str, tuple)):
        return False
    try:
        return float(e).is_integer()
    except (TypeError, ValueError):
        return False


def edge_state(H):
    o = nets.snap_obs(H)
    return {nets.freeze_val(e): (o[3][e], nets.freeze_val(o[4][e])) for e in o[2]}


ADDERS = {"add_edge", "add_edges_from", "add_weighted_edges_from", "add_node_to_edge", "update", "merge_duplicate_edges",
          "add_simplex", "add_simplices_from", "add_weighted_simplices_from"}


def uses_automatic_id(cop, outcls):
    n = cop[0]
    if n in ("add_edge", "add_simplex"):
        return (cop[4] if outcls == "DH" else cop[3]) is None
    if n in ("add_edges_from", "add_simplices_from"):
        return cop[1] in (1, 3) and len(cop[2]) > 0
    return n in ("add_weighted_edges_from", "add_weighted_simplices_from", "update") or (n == "merge_duplicate_edges" and cop[1] == "new")


def run_case(case, ctx):
    name = case["builder"]
    basecls, fn = B[name]
    outcls = name.split(".")[0]
    tmp = tempfile.mkdtemp(prefix="xgi_c04_")
    try:
        try:
            base = nets.build(cast_ids(case["base"], case["idcast"]))
            H = fn(base, case["seed"], tmp)
            if H is None:
                raise ValueError("builder returned None")
        except Exception as e:  # noqa: BLE001   builder not applicable to this base: counted, not judged
            ctx.event("builder-raised:" + name)
            return
        ctx.event("built:" + name)
        errs = nets.integrity(H)
        for tag, detail in errs[:2]:
            ctx.fail(("built-network-inconsistent", name, tag), detail)
        if errs:
            return
        ids0 = list(H._edge)
        risky = any(is_intlike(e) and (int(float(e)) == 0 or int(float(e)) >= len(ids0)) for e in ids0)
        mod = {"H": hops, "DH": dhops, "SC": scops}[outcls]
        auto_adds = 0
        for step, op in enumerate(case["ops"]):
            cop = mod.concretise(H, op)
            opname = cop[0]
            before = edge_state(H)
            n_before = len(H._edge)
            M = mod.Model.of(H)
            counter = [0]

            def fresh():
                counter[0] += 1
                return ("__auto__", step, counter[0])

            mexc = None
            try:
                if outcls == "SC":
                    M.apply(cop)
                    n_model = len(M.fam)
                else:
                    M.apply(cop, fresh)
                    n_model = len(M.edges)
            except Exception as e:  # noqa: BLE001  (Reject / TypeError from mixed-ID merge)
                mexc = e
            exc = None
            with warnings.catch_warnings(record=True) as wlist:
                warnings.simplefilter("always")
                try:
                    r = mod.apply_real(H, cop)
                    if outcls == "DH":
                        H = r
                except Exception as e:  # noqa: BLE001
                    exc = e
            after = edge_state(H)
            tag = "%s|%s" % (name, opname)
            if opname in ADDERS:
                # 1. nothing that existed is altered, replaced or removed
                touched = set()
                if opname == "add_node_to_edge":
                    touched = {nets.freeze_val(cop[1])}
                if opname == "merge_duplicate_edges":
                    touched = set(before)  # merging removes duplicates by design; only freshness is judged
                for e, st_ in before.items():
                    if e in touched:
                        continue
                    if e not in after:
                        ctx.fail(("overwrite", opname, "existing-edge-removed", name), "step %d %r: edge %r gone" % (step, cop, e))
                        break
                    if after[e] != st_:
                        ctx.fail(("overwrite", opname, "existing-edge-altered", name), "step %d %r: edge %r was %r now %r" % (step, cop, e, st_, after[e]))
                        break
                # 2. the number of IDs that appeared is what the call adds
                if exc is None and mexc is None:
                    ctx.check(len(H._edge) == n_model, ("fresh-id", opname, "wrong-number-of-new-ids", name),
                              "step %d %r: %d edges before, %d after, model says %d (ids now %r)" % (step, cop, n_before, len(H._edge), n_model, list(H._edge)))
                    if uses_automatic_id(cop, outcls) and len(H._edge) > n_before:
                        auto_adds += 1
                # 3. explicit existing ID -> warning, network unchanged
                if opname in ("add_edge", "add_simplex") and exc is None:
                    idx = cop[3] if outcls != "DH" else cop[4]
                    if idx is not None and nets.freeze_val(idx) in before:
                        if outcls == "SC" and (frozenset(cop[1]) in {v[0] for v in before.values()} or not cop[1]):
                            pass  # the simplex already exists: skipped silently
                        else:
                            ctx.check(len(wlist) > 0, ("existing-id", opname, "no-warning", name), "step %d %r" % (step, cop))
                            ctx.check(after == before, ("existing-id", opname, "network-changed", name), "step %d %r" % (step, cop))
                new_auto = [e for e in H._edge if nets.freeze_val(e) not in before]
            errs = nets.integrity(H)
            if outcls == "SC" and not errs:
                errs = nets.sc_closure_errors(S=H)
            for t2, detail in errs[:3]:
                ctx.fail(("integrity", opname, t2, name), "step %d %r exc %r: %s" % (step, cop, exc, detail))
            ctx.subchecks += 1
            if ctx.fails:
                break
        ctx.event("automatic-id-additions:%s" % (auto_adds if auto_adds < 3 else "3+"))
        ctx.mark(risky and auto_adds >= 2)
        if risky:
            ctx.event("risky-ids")
    finally:
        shutil.rmtree(tmp, ignore_errors=True)


# --------------------------------------------------------------------------------------------
# registry vs. introspection


def _registry_audit(tier, seed, run):
    import xgi.generators as g

    names = set()
    for m in ("classic", "lattice", "random", "randomizing", "simple", "simplicial_complexes", "uniform"):
        names |= set(getattr(g, m).__all__)
    names |= {n for n in dir(xgi) if n.startswith(("from_", "read_")) or n in ("to_hypergraph", "to_dihypergraph", "to_simplicial_complex")}
    names |= {"subhypergraph", "cut_to_order", "k_skeleton", "convert_labels_to_integers", "largest_connected_hypergraph"}
    src = inspect.getsource(inspect.getmodule(_registry_audit))
    missing = sorted(n for n in names if ("xgi.%s(" % n) not in src)
    return {"builders_registered": len(B), "unregistered_builders": missing}


EXTRA = [_registry_audit]
