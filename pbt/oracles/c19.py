"""C19 - derived networks satisfy their set-theoretic definitions (brute-force construction per input)."""
import collections
import itertools
import random

import networkx as nx
from hypothesis import strategies as st

import xgi
from xgi.exception import XGIError

from .. import nets

PID = "C19"
RULE = (
    "case = hypergraph (labels of any kind, permuted / gapped / string IDs, duplicate edges, singletons, isolated nodes, "
    "several components, attributes) + a second hypergraph + integer keys selecting node / edge subsets (incl. unknown IDs). "
    "For every case ALL 32 cleanup flag combinations x in_place in {True, False} are evaluated and compared with a "
    "brute-force construction (merge equal member sets -> drop singletons -> drop isolated nodes -> restrict to a largest "
    "component, ties accepted -> relabel 0..n-1 / 0..m-1 with old labels recorded); also convert_labels_to_integers "
    "(isomorphism, attributes, recorded labels), subhypergraph, dual and dual-of-dual, <<, complement, cut_to_order for "
    "every order (XGIError above the maximum), largest_connected_hypergraph (both modes), and on the closure complex "
    "SimplicialComplex.cleanup is judged over all 16 flag combinations as well; everything is evaluated again after an in-place edit. "
    "from_max_simplices and k_skeleton. non-trivial = the input has >= 2 components or a duplicate edge or a singleton"
)
BUDGET = {"quick": 1600, "thorough": 40000}
ASSUMPTIONS = [
    "cleanup(connected=True) on a network whose earlier stages leave no node is outside the statement (component of an empty network); counted as class 'cleanup-empty-domain'",
    "which of several tied largest components is kept is not specified: any of them is accepted, the result must be connected",
    "duplicate merging keeps the attributes of the smallest duplicate ID (documented 'first'); mixed-type edge IDs (unsortable) are not drawn for cleanup",
]


@st.composite
def cases(draw, tier):
    spec = draw(nets.net_spec(wide_labels=True, cls="H", max_edges=7, max_size=4, allow_empty=False, allow_dups=True, with_attrs=True, orderable_ids=True,
                              ids=draw(st.sampled_from(["auto", "perm", "gap", "str", "zero-desc"]))))
    # raise the share of duplicates / singletons
    if spec["edges"] and draw(st.booleans()):
        e = spec["edges"][draw(st.integers(0, len(spec["edges"]) - 1))]
        spec["edges"].append([None if e[0] is None else ("dup" if isinstance(e[0], str) else 77), list(e[1]), {}])
    spec2 = draw(nets.net_spec(cls="H", kind=spec["kind"], max_edges=4, allow_empty=False, with_attrs=True))
    return {"spec": spec, "spec2": spec2, "keys": draw(st.lists(st.integers(0, 10**6), min_size=4, max_size=4))}


def strategy(tier):
    return cases(tier)


def comps(nodes, msets):
    G = nx.Graph()
    G.add_nodes_from(nodes)
    for m in msets:
        m = list(m)
        for a in m[1:]:
            G.add_edge(m[0], a)
    return [set(c) for c in nx.connected_components(G)]


def run_case(case, ctx):
    H = nets.build(case["spec"])
    _evaluate(H, case, ctx)
    # the same object after a small in-place edit: every derived network is formed and judged again
    if nets.small_edit(H) is not None:
        ctx.event("re-evaluated-after-edit")
        _evaluate(H, case, ctx)


def _evaluate(H, case, ctx):
    C = ctx.check
    nodes = list(H.nodes)
    mem = {e: frozenset(m) for e, m in H.edges.members(dtype=dict).items()}
    eattr = {e: dict(H.edges[e]) for e in mem}
    r = random.Random(repr(case["keys"]))
    ids_sortable = True
    try:
        sorted(mem)
    except TypeError:
        ids_sortable = False
    # ---- cleanup: all 32 flag combinations, both modes
    if ids_sortable and nodes:
        for isolates, singletons, multiedges, connected, relabel in itertools.product([False, True], repeat=5):
            E = [(e, m) for e, m in mem.items()]
            if not multiedges:
                seen = collections.OrderedDict()
                for e, m in E:
                    seen.setdefault(m, []).append(e)
                E = [(sorted(v)[0], m) for m, v in seen.items()]
            if not singletons:
                E = [(e, m) for e, m in E if len(m) != 1]
            N = list(nodes)
            if not isolates:
                N = [v for v in N if any(v in m for e, m in E)]
            flags = dict(isolates=isolates, singletons=singletons, multiedges=multiedges, connected=connected, relabel=relabel)
            if connected and not N:
                ctx.event("cleanup-empty-domain")
                continue
            if connected:
                cs = comps(N, [m for e, m in E])
                big = max(map(len, cs))
            for in_place in (False, True):
                src = H if not in_place else H.copy()
                try:
                    R = src.cleanup(in_place=in_place, **flags)
                except Exception as e_:  # noqa: BLE001
                    ctx.fail(("cleanup", "raised", type(e_).__name__), "%r in_place=%s: %r" % (flags, in_place, e_))
                    continue
                if in_place:
                    R = src
                else:
                    C(R is not H, ("cleanup", "in_place=False-returned-the-input"), "")
                tag = "%r in_place=%s" % (flags, in_place)
                if relabel:
                    if not C(list(R.nodes) == list(range(R.num_nodes)) and list(R.edges) == list(range(R.num_edges)), ("cleanup", "labels-not-0..n-1"), lambda: "%s nodes %r edges %r" % (tag, list(R.nodes), list(R.edges))):
                        continue
                    nl = {v: R.nodes[v].get("label") for v in R.nodes}
                    rn = [nl[v] for v in R.nodes]
                    re_ = collections.Counter(frozenset(nl[v] for v in m) for m in R.edges.members())
                    el = {R.edges[e].get("label"): {k: v for k, v in R.edges[e].items() if k != "label"} for e in R.edges}
                else:
                    rn = list(R.nodes)
                    re_ = collections.Counter(frozenset(m) for m in R.edges.members())
                    el = {e: dict(R.edges[e]) for e in R.edges}
                Nn, Ee = N, E
                if connected:
                    cand = [c for c in cs if len(c) == big]
                    if not C(set(rn) in cand, ("cleanup", "not-a-largest-component"), lambda: "%s kept %r candidates %r" % (tag, rn, cand)):
                        continue
                    Nn = [v for v in N if v in set(rn)]
                    Ee = [(e, m) for e, m in E if m <= set(rn)]
                    C(R.num_nodes == 0 or xgi.is_connected(R), ("cleanup", "result-not-connected"), tag)
                C(set(rn) == set(Nn) and len(rn) == len(Nn), ("cleanup", "node-set"), lambda: "%s got %r expected %r" % (tag, rn, Nn))
                C(re_ == collections.Counter(m for e, m in Ee), ("cleanup", "edge-multiset"), lambda: "%s got %r expected %r" % (tag, re_, Ee))
                # guarantees
                if not isolates:
                    C(not list(R.nodes.isolates()), ("cleanup", "guarantee", "isolated-nodes-remain"), tag)
                if not singletons:
                    C(not list(R.edges.singletons()), ("cleanup", "guarantee", "singletons-remain"), tag)
                if not multiedges:
                    C(not list(R.edges.duplicates()), ("cleanup", "guarantee", "repeated-edges-remain"), tag)
                    # the surviving duplicate keeps the smallest ID and its attributes
                    for e, m in Ee:
                        if e in el:
                            C({k: v for k, v in el[e].items()} == {k: v for k, v in eattr[e].items() if not (relabel and k == "label")}, ("cleanup", "merged-edge-attributes"), lambda: "%s edge %r: %r vs %r" % (tag, e, el[e], eattr[e]))
                        else:
                            C(False, ("cleanup", "merged-edge-id-not-the-smallest"), lambda: "%s expected id %r among %r" % (tag, e, list(el)))
    # ---- integer relabelling is an isomorphism that records the old labels
    for attr in ("label", "old"):
        R = xgi.convert_labels_to_integers(H, attr)
        if C(list(R.nodes) == list(range(H.num_nodes)) and list(R.edges) == list(range(H.num_edges)), ("relabel", "range"), ""):
            for i, v in enumerate(H.nodes):
                a = dict(R.nodes[i])
                C(a.pop(attr, None) == v and a == {k: x for k, x in H.nodes[v].items() if k != attr}, ("relabel", "node-attrs-or-label"), lambda: "node %r: %r" % (v, R.nodes[i]))
            for j, e in enumerate(H.edges):
                a = dict(R.edges[j])
                C(a.pop(attr, None) == e and a == {k: x for k, x in H.edges[e].items() if k != attr}, ("relabel", "edge-attrs-or-label"), lambda: "edge %r: %r" % (e, R.edges[j]))
                C({R.nodes[x][attr] for x in R.edges.members(j)} == set(mem[e]), ("relabel", "members"), lambda: "edge %r" % (e,))
            C(dict(R._net_attr) == dict(H._net_attr), ("relabel", "net-attrs"), "")
    # ---- subhypergraph
    ns = r.sample(nodes, r.randint(0, len(nodes)))
    es = r.sample(list(mem), r.randint(0, len(mem)))
    for kw in (dict(nodes=ns), dict(edges=es), dict(nodes=ns, edges=es), dict(nodes=ns + ["__zz__"], edges=es + ["__qq__"], keep_isolates=False), dict()):
        R = xgi.subhypergraph(H, **kw)
        wn = set(kw.get("nodes", nodes)) & set(nodes)
        we = {e for e in kw.get("edges", mem) if e in mem and mem[e] <= wn}
        if not kw.get("keep_isolates", True):
            wn = {v for v in wn if any(v in mem[e] for e in we)}
        C(set(R.nodes) == wn and {e: frozenset(m) for e, m in R.edges.members(dtype=dict).items()} == {e: mem[e] for e in we}, ("subhypergraph", "nodes-or-edges"), lambda: "%r: nodes %r edges %r expected %r %r" % (kw, list(R.nodes), R.edges.members(dtype=dict), wn, we))
        C(R.is_frozen, ("subhypergraph", "not-frozen"), "")
        C(all(R.edges[e] == H.edges[e] for e in R.edges) and all(R.nodes[n] == H.nodes[n] for n in R.nodes), ("subhypergraph", "attributes"), "")
    # ---- dual
    D = H.dual()
    C(set(D.nodes) == set(mem) and {e: frozenset(m) for e, m in D.edges.members(dtype=dict).items()} == {n: frozenset(m) for n, m in H.nodes.memberships().items()}, ("dual", "exchange"), lambda: "%r" % (D.edges.members(dtype=dict),))
    C({e: D.edges[e] for e in D.edges} == {n: H.nodes[n] for n in nodes} and {n: D.nodes[n] for n in D.nodes} == eattr, ("dual", "attributes"), "")
    if not list(H.nodes.isolates()) and all(mem.values()):
        DD = D.dual()
        C({e: frozenset(m) for e, m in DD.edges.members(dtype=dict).items()} == mem and set(DD.nodes) == set(nodes), ("dual", "involution"), "")
        C({v: DD.nodes[v] for v in DD.nodes} == {v: H.nodes[v] for v in nodes} and {e: DD.edges[e] for e in DD.edges} == eattr, ("dual", "involution-attributes"), "")
    # ---- << : disjoint union of edges over the union of nodes
    H2 = nets.build(case["spec2"])
    U = H << H2
    C(set(U.nodes) == set(H.nodes) | set(H2.nodes), ("lshift", "nodes"), "")
    C([frozenset(m) for m in U.edges.members()] == [frozenset(m) for m in H.edges.members()] + [frozenset(m) for m in H2.edges.members()], ("lshift", "edges"), lambda: "%r" % (U.edges.members(),))
    C(all(U.nodes[n] == {**H.nodes[n], **H2.nodes[n]} if (n in H.nodes and n in H2.nodes) else True for n in U.nodes), ("lshift", "node-attrs-second-wins"), "")
    C(len(set(U.edges)) == H.num_edges + H2.num_edges, ("lshift", "edge-ids-distinct"), "")
    # ---- complement
    if mem and len(nodes) <= 7:
        Cc = xgi.complement(H)
        ms = max(len(m) for m in mem.values())
        have = set(mem.values())
        want = {frozenset(c) for k in range(1, ms + 1) for c in itertools.combinations(nodes, k)} - have
        got = [frozenset(m) for m in Cc.edges.members()]
        C(set(got) == want and len(got) == len(want) and set(Cc.nodes) == set(nodes), ("complement", "absent-node-sets"), lambda: "extra %r missing %r" % (list(set(got) - want)[:3], list(want - set(got))[:3]))
    # ---- cut_to_order
    if mem:
        mo = max(len(m) for m in mem.values()) - 1
        for o in range(0, mo + 1):
            R = xgi.cut_to_order(H, o)
            C({e: frozenset(m) for e, m in R.edges.members(dtype=dict).items()} == {e: m for e, m in mem.items() if len(m) <= o + 1} and set(R.nodes) == set(nodes), ("cut_to_order", "edges"), lambda: "order %d" % o)
        try:
            xgi.cut_to_order(H, mo + 1)
            C(False, ("cut_to_order", "no-error-above-maximum"), "order %d" % (mo + 1))
        except XGIError:
            pass
    # ---- largest_connected_hypergraph
    if nodes:
        cs = comps(nodes, mem.values())
        big = max(map(len, cs))
        for ip in (False, True):
            if ip:
                R = H.copy()
                xgi.largest_connected_hypergraph(R, in_place=True)
            else:
                R = xgi.largest_connected_hypergraph(H)
            if C(set(R.nodes) in [c for c in cs if len(c) == big], ("largest_connected_hypergraph", "nodes"), lambda: "in_place=%s %r" % (ip, list(R.nodes))):
                C({e: frozenset(m) for e, m in R.edges.members(dtype=dict).items()} == {e: m for e, m in mem.items() if m <= set(R.nodes)}, ("largest_connected_hypergraph", "edges"), "in_place=%s" % ip)
    # ---- simplicial complexes: from_max_simplices / k_skeleton
    S = xgi.SimplicialComplex()
    S.add_nodes_from(nodes)
    S.add_simplices_from([list(m) for m in mem.values()])
    sm = {frozenset(m) for m in S.edges.members()}
    F = xgi.from_max_simplices(S)
    wantmax = {m for m in sm if not any(m < o for o in sm)}
    gm = [frozenset(m) for m in F.edges.members()]
    C(set(gm) == wantmax and len(gm) == len(wantmax) and set(F.nodes) == set(S.nodes), ("from_max_simplices", "maximal-simplices"), lambda: "%r vs %r" % (gm, wantmax))
    if sm:
        so = max(len(m) for m in sm) - 1
        for o in range(0, so + 1):
            K = xgi.k_skeleton(S, o)
            C({frozenset(m) for m in K.edges.members()} == {m for m in sm if len(m) <= o + 1} and set(K.nodes) == set(nodes), ("k_skeleton", "simplices"), "order %d" % o)
        try:
            xgi.k_skeleton(S, so + 1)
            C(False, ("k_skeleton", "no-error-above-maximum"), "")
        except XGIError:
            pass
    # ---- cleanup of a simplicial complex: isolates / connected / relabel, copy and in place
    if sm:
        snodes = list(S.nodes)
        for iso, con, rel, ip in itertools.product((False, True), (False, True), (False, True), (False, True)):
            T = S.copy()
            try:
                R = T.cleanup(isolates=iso, connected=con, relabel=rel, in_place=ip)
            except Exception as e:  # noqa: BLE001
                C(False, ("sc-cleanup", "raised", type(e).__name__), "isolates=%s connected=%s relabel=%s in_place=%s: %r" % (iso, con, rel, ip, e))
                continue
            if ip:
                R = T
            else:
                C({frozenset(m) for m in T.edges.members()} == sm and list(T.nodes) == snodes, ("sc-cleanup", "copy-mode-changed-the-input"), "")
            keep = [v for v in snodes if iso or any(v in m for m in sm)]
            if con:
                cs = comps(keep, [m for m in sm])
                big = max(map(len, cs)) if cs else 0
                cands = [c for c in cs if len(c) == big]
            else:
                cands = [set(keep)]
            back = {v: (R.nodes[v].get("label", v) if rel else v) for v in R.nodes}
            got_nodes = {back[v] for v in R.nodes}
            tagc = "isolates=%s connected=%s relabel=%s in_place=%s" % (iso, con, rel, ip)
            if C(got_nodes in cands, ("sc-cleanup", "node-set"), lambda: "%s: kept %r candidates %r" % (tagc, sorted(map(repr, got_nodes)), cands)):
                got = {frozenset(back[v] for v in m) for m in R.edges.members()}
                want = {m for m in sm if m <= got_nodes}
                C(got == want and R.num_edges == len(want), ("sc-cleanup", "simplices"), lambda: "%s: missing %r extra %r" % (tagc, sorted(map(sorted, want - got), key=repr)[:3], sorted(map(sorted, got - want), key=repr)[:3]))
            if rel:
                C(sorted(R.nodes, key=repr) == sorted(range(R.num_nodes), key=repr) and sorted(R.edges, key=repr) == sorted(range(R.num_edges), key=repr), ("sc-cleanup", "labels-not-0..n-1"), tagc)
    ncomp = len(comps(nodes, mem.values())) if nodes else 0
    ctx.mark(ncomp >= 2 or len(set(mem.values())) < len(mem) or any(len(m) == 1 for m in mem.values()))
