"""C02 - directed incidence integrity (tail/head vs out/in memberships) under every history."""
from .. import dhops, nets

PID = "C02"
RULE = (
    "case = start DiHypergraph (none / edge list / edge dict / another DiHypergraph) + up to 30 (thorough 50) ops over "
    "the DiHypergraph mutator alphabet (bulk formats 1-5, add/remove node to/from tail or head incl. an invalid "
    "direction, weak/strong removal, remove_empty on/off, None members, copy, cleanup, in-place relabelling); the "
    "directed integrity predicate and every directed degree/size stat are evaluated after every op, returned or raised. "
    "non-trivial = (an edge whose tail and head intersect existed, or a strong removal of a node with degree>=1 "
    "returned) and at least one later op ran; distinct = distinct canonical JSON"
)
BUDGET = {"quick": 4000, "thorough": 160000}
ASSUMPTIONS = [
    "edge IDs are never tuples for DiHypergraph (the bulk adder decides the format by 'second element is iterable')",
    "white-box supplement: key sets of _node/_node_attr and _edge/_edge_attr are compared",
]


def strategy(tier):
    return dhops.history(max_ops=30 if tier == "quick" else 50, none_p=True)


def run_case(case, ctx):
    try:
        H = dhops.make_init(case["init"])
    except Exception:  # noqa: BLE001
        ctx.event("init-raised")
        return
    ctx.event("init:" + case["init"][0])
    interesting_at = None
    nops = len(case["ops"])
    for step, op in enumerate(case["ops"]):
        cop = dhops.concretise(H, op)
        name = cop[0]
        if interesting_at is None and any(set(t) & set(h) for t, h in H.edges.dimembers()):
            interesting_at = step
        strong_deg = name == "remove_node" and cop[2] and cop[1] in H._node and (H._node[cop[1]]["in"] or H._node[cop[1]]["out"])
        exc = None
        try:
            H = dhops.apply_real(H, cop)
        except Exception as e:  # noqa: BLE001
            exc = e
            ctx.event("op-raised")
        if exc is None and strong_deg and interesting_at is None:
            interesting_at = step + 1
            ctx.event("strong-removal-of-connected-node")
        errs = nets.integrity(H) + nets.stats_consistency(H)
        for tag, detail in errs[:4]:
            ctx.fail(("integrity", name, tag, "after-raise" if exc is not None else "after-return"),
                     "step %d op %r exc %r: %s" % (step, cop, exc, detail))
        ctx.subchecks += 1
        if errs:
            break
    ctx.mark(interesting_at is not None and interesting_at < nops)
    ctx.event("len>=10" if nops >= 10 else "len<10")
