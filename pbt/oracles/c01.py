"""C01 - undirected incidence integrity under every edit history (every prefix, returns or raises)."""
from hypothesis import strategies as st

from .. import hops, nets

PID = "C01"
RULE = (
    "case = start network (constructor input: none / edge list / edge dict / 2-column DataFrame / incidence "
    "matrix / another Hypergraph) + up to 30 (thorough 50) ops over the full Hypergraph mutator alphabet incl. "
    "in-place cleanup / merge / relabel / largest-component, None and empty members, explicit, automatic, "
    "existing and missing IDs, explicit IDs at / just above the automatic counter as int, integer-valued float and numpy int, IDs that existed earlier in the history and vanished, copies of existing edges, a 3-label kind that makes duplicate edges common, start states on which a merge has already run; the integrity predicate runs after every op whether it returned or raised. "
    "non-trivial = history has >=1 edge-creating and >=1 removing/rewiring/merging op, or a call raised while "
    "the network had >=1 edge; distinct = distinct canonical JSON of the case"
)
BUDGET = {"quick": 4000, "thorough": 160000}
ASSUMPTIONS = [
    "node labels: one kind per network (ints, gapped/negative ints, 1-2 char strings); tuple labels are not generated (ambiguous with bulk formats)",
    "white-box supplement: key sets of _node/_node_attr and _edge/_edge_attr are compared (orphan attribute records are invisible in the views)",
]


def strategy(tier):
    return hops.history(max_ops=30 if tier == "quick" else 50, none_p=True, bulk_empty=True, heavy=True)


def run_case(case, ctx):
    try:
        H = hops.make_init(case["init"])
    except Exception:  # noqa: BLE001  constructor rejected the input: nothing to observe
        ctx.event("init-raised")
        return
    ctx.event("init:" + case["init"][0])
    created = removed = raised_with_edges = False
    for step, op in enumerate(case["ops"]):
        cop = hops.concretise(H, op)
        had_edges = len(H._edge) > 0
        exc = None
        try:
            hops.apply_real(H, cop)
        except Exception as e:  # noqa: BLE001  exceptions are judged by C05; here only the state they leave
            exc = e
        name = cop[0]
        if exc is None:
            created |= name in hops.EDGE_CREATING
            removed |= name in hops.REMOVING
        else:
            ctx.event("op-raised")
            raised_with_edges |= had_edges
        errs = nets.integrity(H) + nets.stats_consistency(H)
        for tag, detail in errs[:4]:
            ctx.fail(("integrity", name, tag, "after-raise" if exc is not None else "after-return"),
                     "step %d op %r exc %r: %s" % (step, cop, exc, detail))
        ctx.subchecks += 1
        if errs:
            break
    ctx.mark((created and removed) or raised_with_edges)
    if any(None in (o[1] if o[0] in ("add_edge",) else []) for o in case["ops"]):
        ctx.event("has-None-member")
    ctx.event("len>=10" if len(case["ops"]) >= 10 else "len<10")
