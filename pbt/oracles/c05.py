"""C05 - each edit has exactly its documented effect: step-by-step refinement of the reference models
(Hypergraph: hops.Model, DiHypergraph: dhops.Model, SimplicialComplex: scops.Model)."""
import copy

from hypothesis import strategies as st

from .. import hops, nets
from ..nets import LIBERR

try:
    from .. import dhops
except ImportError:  # pragma: no cover
    dhops = None
try:
    from .. import scops
except ImportError:  # pragma: no cover
    scops = None

PID = "C05"
RULE = (
    "case = class (H / DH / SC) + start network + up to 30 (thorough 50) ops over that class's mutator alphabet "
    "with every documented argument shape; each op is applied to xgi and to a model transcribed from the docstrings "
    "(parametric in the automatically assigned IDs, prefix semantics for bulk calls) and the observable snapshots "
    "(nodes, edges, members or tail/head, three attribute levels) are compared after every step; double_edge_swap / "
    "random_edge_shuffle are judged metamorphically. non-trivial = >=3 distinct op kinds returned and >=1 "
    "removing / merging / rewiring op changed the network; distinct = distinct canonical JSON"
)
BUDGET = {"quick": 4500, "thorough": 180000}
ASSUMPTIONS = [
    "inputs the documentation leaves contradictory are not judged: empty member lists in bulk adders are not drawn, add_edge([]) may either raise or add an empty edge",
    "a None member together with an already existing explicit ID (skip vs reject both defensible) is sanitised away and counted (class 'sanitised')",
    "cleanup / convert_labels_to_integers / largest_connected_hypergraph inside a history only re-synchronise the model (their definitions are property C19)",
    "which automatic ID a simplicial-complex face receives is not specified: complexes are compared as {member set -> attrs} plus the explicit-ID map",
]


def strategy(tier):
    n = 30 if tier == "quick" else 50
    alts = [hops.history(max_ops=n, none_p=True, bulk_empty=False, heavy=True).map(lambda c: dict(c, cls="H"))]
    if dhops is not None:
        alts.append(dhops.history(max_ops=n, none_p=True).map(lambda c: dict(c, cls="DH")))
    if scops is not None:
        alts.append(scops.history(max_ops=n, none_p=True).map(lambda c: dict(c, cls="SC")))
    return st.one_of(alts)


def run_case(case, ctx):
    cls = case.get("cls", "H")
    ctx.event("class:" + cls)
    if cls == "H":
        run_h(case, ctx)
    elif cls == "DH":
        dhops.run_model(case, ctx)
    else:
        scops.run_model(case, ctx)


# --------------------------------------------------------------------------------------------


def sanitise_h(H, cop, kind, ctx):
    """exclude by construction what the docs leave open (counted)"""
    name = cop[0]
    strk = kind in ("str", "str2")

    def clean(mem, idx, bulk):
        if None in mem and ((idx is not None and idx in H._edge) or (bulk and strk)):
            ctx.event("sanitised")
            return [m for m in mem if m is not None]
        return mem

    if name == "add_edge":
        cop[1] = clean(cop[1], cop[3], False)
    elif name == "add_edges_from":
        fmt = cop[1]
        items = []
        for it in cop[2]:
            if fmt == 5:
                it[1] = clean(it[1], it[0], True)
                mem = it[1]
            else:
                it[0] = clean(it[0], it[2] if fmt in (2, 4) else None, True)
                mem = it[0]
            if mem:
                items.append(it)
            else:
                ctx.event("sanitised")
        cop[2] = items
    elif name == "add_weighted_edges_from" and strk:
        cop[1] = [[clean(m, None, True), w] for m, w in cop[1]]
        cop[1] = [it for it in cop[1] if it[0]]
    return cop


def explicit_ids(cop):
    name = cop[0]
    if name == "add_edge":
        return set() if cop[3] is None else {nets.freeze_val(cop[3])}
    if name == "add_edges_from":
        if cop[1] == 5:
            return {nets.freeze_val(it[0]) for it in cop[2]}
        if cop[1] in (2, 4):
            return {nets.freeze_val(it[2]) for it in cop[2]}
        return set()
    if name == "add_node_to_edge":
        return {nets.freeze_val(cop[1])}
    return set()


def unordered(snap):
    nodes, nattr, edges, mem, eattr, net = snap
    return (nattr, mem, eattr, net)


def diff_snap(a, b):
    out = []
    for i, nm in enumerate(("node-attrs", "members", "edge-attrs", "net-attrs")):
        if a[i] != b[i]:
            ka = set(map(nets.freeze_val, a[i])) if isinstance(a[i], dict) else set()
            kb = set(map(nets.freeze_val, b[i])) if isinstance(b[i], dict) else set()
            if ka != kb:
                out.append((nm + "-ids", "xgi has %r model has %r" % (sorted(map(repr, a[i])), sorted(map(repr, b[i])))))
            else:
                bad = [k for k in a[i] if a[i][k] != b[i][k]]
                out.append((nm, "; ".join("%r: xgi %r model %r" % (k, a[i][k], b[i][k]) for k in bad[:3])))
    return out


def degrees(snap):
    d = {}
    for e, m in snap[3].items():
        for n in m:
            d[n] = d.get(n, 0) + 1
    return d


def metamorphic_h(ctx, name, cop, before, after, exc):
    sizes = lambda s: {nets.freeze_val(e): len(m) for e, m in s[3].items()}  # noqa: E731
    if exc is not None:
        few = name == "random_edge_shuffle" and len(before[2]) < 2 and isinstance(exc, ValueError)
        ctx.check(isinstance(exc, LIBERR) or few, ("move", name, "wrong-exception-type"), "%r -> %r" % (cop, exc))
        ctx.check(unordered(before) == unordered(after), ("move", name, "raised-but-changed"), "%r -> %r" % (cop, exc))
        return
    ctx.check(sizes(before) == sizes(after), ("move", name, "edge-size-changed"), repr(cop))
    ctx.check(degrees(before) == degrees(after), ("move", name, "degree-changed"), repr(cop))
    ctx.check(before[1] == after[1] and before[4] == after[4] and before[5] == after[5], ("move", name, "attributes-changed"), repr(cop))
    ctx.check(before[0] == after[0] and before[2] == after[2], ("move", name, "ids-or-order-changed"), repr(cop))
    if name == "double_edge_swap":
        n1, n2, e1, e2 = cop[1:5]
        ok_pre = n1 in before[3].get(e1, ()) and n2 in before[3].get(e2, ())
        ctx.check(ok_pre, ("move", name, "accepted-non-member"), repr(cop))
        touched = (e1, e2)
        if ok_pre and nets.freeze_val(e1) != nets.freeze_val(e2) and n1 != n2:
            exp1 = (before[3][e1] - {n1}) | {n2}
            exp2 = (before[3][e2] - {n2}) | {n1}
            ctx.check(after[3][e1] == exp1 and after[3][e2] == exp2, ("move", name, "wrong-result"), "%r: %r %r" % (cop, after[3][e1], after[3][e2]))
    else:
        e1, e2 = cop[1], cop[2]
        if e1 is None:
            touched = [e for e in before[3] if before[3][e] != after[3][e]]
            ctx.check(len(touched) <= 2, ("move", name, "more-than-two-edges-changed"), repr(cop))
        else:
            touched = (e1, e2)
            if nets.freeze_val(e1) != nets.freeze_val(e2):
                b1, b2, a1, a2 = before[3][e1], before[3][e2], after[3][e1], after[3][e2]
                ctx.check((a1 | a2) == (b1 | b2) and (b1 & b2) <= (a1 & a2), ("move", name, "nodes-not-redistributed"), "%r: %r %r" % (cop, a1, a2))
    touched_keys = {nets.freeze_val(t) for t in touched}  # a tuple ID compared with a numpy integer would broadcast
    for e in before[3]:
        if nets.freeze_val(e) not in touched_keys:
            ctx.check(before[3][e] == after[3][e], ("move", name, "other-edge-changed"), "%r edge %r" % (cop, e))


RESYNC = {"cleanup", "convert_labels_to_integers", "largest_connected_hypergraph"}


def run_h(case, ctx):
    try:
        H = hops.make_init(case["init"])
    except Exception:  # noqa: BLE001
        ctx.event("init-raised")
        return
    M = hops.Model.of(H)
    returned_kinds = set()
    dependent = False
    for step, op in enumerate(case["ops"]):
        cop = sanitise_h(H, hops.concretise(H, op), case["kind"], ctx)
        name = cop[0]
        before = nets.snap_obs(H)
        before_ids = set(H._edge)
        exc = None
        try:
            hops.apply_real(H, cop)
        except Exception as e:  # noqa: BLE001
            exc = e
        after = nets.snap_obs(H)
        if exc is None:
            returned_kinds.add(name)
            if name in hops.REMOVING and unordered(before) != unordered(after):
                dependent = True
                ctx.event("changed-by:" + name)
        else:
            ctx.event("op-raised")
        nfail = len(ctx.fails)
        if name in ("double_edge_swap", "random_edge_shuffle"):
            metamorphic_h(ctx, name, cop, before, after, exc)
            M = hops.Model.of(H)
        elif name in RESYNC:
            M = hops.Model.of(H)
        else:
            new_ids = [e for e in H._edge if e not in before_ids]
            expl = explicit_ids(cop)
            if name == "merge_duplicate_edges" and cop[1] != "new":
                auto = []
            else:
                auto = [e for e in new_ids if nets.freeze_val(e) not in expl]
            for e in auto:
                ctx.check(isinstance(e, int) and not isinstance(e, bool), ("auto-id", name, "not-an-int"), "%r -> %r" % (cop, e))
            it = iter(auto)

            def fresh():
                try:
                    return next(it)
                except StopIteration:
                    raise hops.NeedFresh() from None

            mexc = None
            Mb = copy.deepcopy(M)
            empty_add = name == "add_edge" and not cop[1]
            try:
                if empty_add and isinstance(exc, LIBERR):
                    raise hops.Reject("empty members (documented XGIError)")
                M.apply(cop, fresh)
            except hops.Reject as r:
                mexc = r
            except TypeError as t:  # sorted() over mixed-type IDs in merge_duplicate_edges
                mexc = t
                M = Mb
            except hops.NeedFresh:
                ctx.fail(("auto-id", name, "fewer-new-ids-than-edges-added"), "step %d %r: new ids %r (an automatic ID collided with an existing one?)" % (step, cop, new_ids))
                break
            if mexc is None and exc is not None:
                ctx.fail(("effect", name, "raises-where-docs-accept", type(exc).__name__), "step %d %r -> %r" % (step, cop, exc))
            elif mexc is not None and exc is None:
                ctx.fail(("effect", name, "accepts-where-docs-reject"), "step %d %r (model: %s)" % (step, cop, mexc))
            elif isinstance(mexc, hops.Reject):
                ctx.check(isinstance(exc, LIBERR), ("effect", name, "rejects-with-foreign-exception", type(exc).__name__), "step %d %r -> %r" % (step, cop, exc))
            elif isinstance(mexc, TypeError):
                ctx.check(isinstance(exc, TypeError) or isinstance(exc, LIBERR), ("effect", name, "mixed-id-sort-exception", type(exc).__name__), "step %d %r -> %r" % (step, cop, exc))
            if len(ctx.fails) == nfail:
                for tag, detail in diff_snap(unordered(after), unordered(M.snap())):
                    ctx.fail(("effect", name, tag, "after-raise" if exc is not None else "after-return"), "step %d %r exc %r: %s" % (step, cop, exc, detail))
            ctx.subchecks += 1
        if len(ctx.fails) > nfail:
            break
    ctx.mark(len(returned_kinds) >= 3 and dependent)
    ctx.event("len>=10" if len(case["ops"]) >= 10 else "len<10")
