"""C12 - matrix representations encode the network exactly (brute force from members() through the index maps)."""
import itertools

import numpy as np
from hypothesis import strategies as st
from scipy.sparse import issparse

import xgi

from .. import nets

PID = "C12"
RULE = (
    "case = hypergraph (any label kind, permuted / gapped / string IDs, multi-edges, singletons, isolated nodes, possibly "
    "no edges or none of a requested order) with optional non-negative edge weights (0 included) + order/weight lists for the multi-order "
    "Laplacian; for every case the whole option grid order in {None,0,1,2,3} x sparse x s in {1,2,3} x weighted x "
    "rescale_per_node is evaluated and every entry of the incidence, adjacency, degree, intersection-profile, "
    "clique-motif, adjacency-tensor, order-d / multi-order / normalised Laplacian is compared, through the returned "
    "index maps, with a brute-force value computed from members(); symmetry, zero diagonal, zero row sums and PSD "
    "Every case is evaluated twice around an in-place edit that keeps the node and edge counts; edges have up to 6 nodes (adjacency tensor up to order 5); one fixed network with two 130-node edges is added to every run. "
    "(eigvalsh >= -1e-9) are checked, and sparse == dense for every combination. non-trivial = two edges of different "
    "sizes share a node and the node labels are not 0..n-1"
)
BUDGET = {"quick": 640, "thorough": 12000}
ASSUMPTIONS = [
    "degenerate shapes: 'no incidences' may be reported as (0, 0) (what the suite pins) or (n, 0); the index map of an edge-less adjacency is not judged",
    "normalised Laplacian: exercised without isolated nodes and empty edges (documented XGIError / division by zero); the textbook form is Zhou et al. 2006 with weighted vertex degrees",
    "floating point comparisons use atol 1e-9",
]


@st.composite
def cases(draw, tier):
    spec = draw(nets.net_spec(wide_labels="mixed", cls="H", max_edges=7, max_size=draw(st.sampled_from([4, 4, 6])), allow_empty=False, with_attrs=False))
    m = len(spec["edges"])
    ws = draw(st.lists(st.sampled_from([0, 0.5, 1, 1, 2, 3, 10]), min_size=m, max_size=m))  # non-negative, 0 included
    use_w = draw(st.booleans())
    for e, w in zip(spec["edges"], ws):
        if use_w:
            e[2] = {"weight": w}
    k = draw(st.integers(1, 3))
    return {"shadow": draw(st.integers(0, 3)) == 0, "spec": spec, "orders": draw(st.lists(st.integers(1, 3), min_size=k, max_size=k, unique=True)),
            "weights": draw(st.lists(st.sampled_from([0, 0.5, 1, 2]), min_size=k, max_size=k))}


def strategy(tier):
    return cases(tier)


def dense(A):
    return A.toarray() if issparse(A) else np.asarray(A)


def run_case(case, ctx):
    H = nets.build(case["spec"])
    if case.get("shadow"):
        wts = {e: H.edges[e].get("weight") for e in H.edges}
        nets.shadow_stat_names(H)  # attributes called "order" / "size" / "degree" must not change any matrix
        ctx.event("attributes-named-like-statistics")
    _evaluate(H, case, ctx)
    _positional(H, case, ctx)
    # the same object after an edit that changes neither the number of nodes nor the number of edges: nothing computed
    # for the earlier state may survive (every matrix is re-derived and compared again)
    edited = nets.small_edit(H) is not None
    if edited:
        ctx.event("re-evaluated-after-edit")
        _evaluate(H, case, ctx)


def _positional(H, case, ctx):
    """the documented parameter order: the same call with its options passed positionally gives the same matrix"""
    if not H.num_nodes:
        return

    def same(a, b):
        a, b = dense(a), dense(b)
        return a.shape == b.shape and np.allclose(a, b, atol=1e-12, equal_nan=True)

    C = ctx.check
    for order in (1, 2):
        for sparse in (False, True):
            for rescale in (False, True):
                kw = xgi.laplacian(H, order=order, sparse=sparse, rescale_per_node=rescale)
                ps = xgi.laplacian(H, order, sparse, rescale)
                C(issparse(kw) == issparse(ps) and same(kw, ps), ("positional", "laplacian"), lambda: "order=%d sparse=%s rescale=%s" % (order, sparse, rescale))
    for sparse in (False, True):
        for s_ in (1, 2):
            for w in (False, True):
                kw = xgi.adjacency_matrix(H, order=None, sparse=sparse, s=s_, weighted=w)
                ps = xgi.adjacency_matrix(H, None, sparse, s_, w)
                C(issparse(kw) == issparse(ps) and same(kw, ps), ("positional", "adjacency_matrix"), lambda: "sparse=%s s=%d weighted=%s" % (sparse, s_, w))
        kw = xgi.incidence_matrix(H, order=1, sparse=sparse)
        ps = xgi.incidence_matrix(H, 1, sparse)
        C(issparse(kw) == issparse(ps) and same(kw, ps), ("positional", "incidence_matrix"), "sparse=%s" % sparse)
        for rescale in (False, True):
            kw = xgi.multiorder_laplacian(H, orders=[1, 2], weights=[1, 0.5], sparse=sparse, rescale_per_node=rescale)
            ps = xgi.multiorder_laplacian(H, [1, 2], [1, 0.5], sparse, rescale)
            C(issparse(kw) == issparse(ps) and same(kw, ps), ("positional", "multiorder_laplacian"), "sparse=%s rescale=%s" % (sparse, rescale))


def _evaluate(H, case, ctx):
    nodes, edges = list(H.nodes), list(H.edges)
    mem = {e: set(m) for e, m in H.edges.members(dtype=dict).items()}
    n = len(nodes)

    def sel_of(order):
        return [e for e in edges if order is None or len(mem[e]) == order + 1]

    C = ctx.check
    for order in (None, 0, 1, 2, 3):
        sel = sel_of(order)
        tag = "order=%s" % order
        # ---- incidence
        outs = []
        for sparse in (True, False):
            I, rd, cd = xgi.incidence_matrix(H, order=order, sparse=sparse, index=True)
            I = dense(I)
            outs.append(I)
            if not sel or not nodes:
                C(I.shape in ((0, 0), (n, 0)), ("incidence", "shape-without-incidences"), lambda: "%s sparse=%s shape %r" % (tag, sparse, I.shape))
                continue
            if not C(I.shape == (n, len(sel)), ("incidence", "shape"), lambda: "%s sparse=%s shape %r, %d nodes %d edges" % (tag, sparse, I.shape, n, len(sel))):
                continue
            C(set(cd.values()) == set(sel) and set(rd.values()) == set(nodes) and len(cd) == len(sel) and len(rd) == n, ("incidence", "index-maps"), lambda: "%s rows %r cols %r" % (tag, rd, cd))
            bad = [(rd[i], cd[j], I[i, j]) for i in range(n) for j in range(len(sel)) if I[i, j] != (1 if rd[i] in mem[cd[j]] else 0)]
            C(not bad, ("incidence", "entry"), lambda: "%s sparse=%s: %r members %r" % (tag, sparse, bad[:3], mem))
        C(outs[0].shape == outs[1].shape and np.array_equal(outs[0], outs[1]), ("incidence", "sparse-vs-dense"), tag)
        # weighted incidence matrix: entry = weight(node, edge, H) at the incidences (documented `weight` callable)
        if sel and nodes:
            nrank = {v: i for i, v in enumerate(sorted(nodes, key=repr))}
            erank = {e: i for i, e in enumerate(sorted(edges, key=repr))}
            wf = lambda node, edge, HH: 1 + nrank[node] + 10 * erank[edge]  # noqa: E731
            for sparse in (True, False):
                I, rd, cd = xgi.incidence_matrix(H, order=order, sparse=sparse, index=True, weight=wf)
                I = dense(I)
                if C(I.shape == (n, len(sel)), ("incidence", "weighted-shape"), lambda: "%s %r" % (tag, I.shape)):
                    bad = [(rd[i], cd[j], I[i, j]) for i in range(n) for j in range(len(sel)) if I[i, j] != (wf(rd[i], cd[j], H) if rd[i] in mem[cd[j]] else 0)]
                    C(not bad, ("incidence", "weighted-entry"), lambda: "%s sparse=%s: (node, edge, got) %r" % (tag, sparse, bad[:3]))
        # ---- adjacency
        for s in (1, 2, 3):
            for weighted in (False, True):
                outs = []
                for sparse in (True, False):
                    A, rd = xgi.adjacency_matrix(H, order=order, sparse=sparse, s=s, weighted=weighted, index=True)
                    A = dense(A)
                    outs.append(A)
                    if n == 0:
                        C(A.shape == (0, 0), ("adjacency", "shape-empty"), repr(A.shape))
                        continue
                    if not C(A.shape == (n, n), ("adjacency", "shape"), lambda: "%s s=%d weighted=%s sparse=%s: %r for %d nodes" % (tag, s, weighted, sparse, A.shape, n)):
                        continue
                    if sel:
                        if not C(set(rd.values()) == set(nodes) and len(rd) == n, ("adjacency", "index-map"), lambda: "%r" % (rd,)):
                            continue
                        pos = {v: k for k, v in rd.items()}
                    else:
                        pos = {v: i for i, v in enumerate(nodes)}
                    C(np.array_equal(A, A.T), ("adjacency", "symmetric"), tag)
                    C(not np.any(np.diag(A)), ("adjacency", "zero-diagonal"), tag)
                    bad = []
                    for a, b in itertools.combinations(nodes, 2):
                        c = sum(1 for e in sel if a in mem[e] and b in mem[e])
                        want = (c if weighted else 1) if c >= s else 0
                        if A[pos[a], pos[b]] != want:
                            bad.append((a, b, A[pos[a], pos[b]], want))
                    C(not bad, ("adjacency", "entry"), lambda: "%s s=%d weighted=%s sparse=%s: (i, j, got, want) %r members %r" % (tag, s, weighted, sparse, bad[:3], mem))
                C(outs[0].shape == outs[1].shape and np.array_equal(outs[0], outs[1]), ("adjacency", "sparse-vs-dense"), lambda: "%s s=%d weighted=%s" % (tag, s, weighted))
        # ---- degree vector
        K, rd = xgi.degree_matrix(H, order=order, index=True)
        K = np.asarray(K).ravel()
        if not sel and not rd:
            rd = dict(enumerate(nodes))  # the index map of an edge-less selection is not judged
        if C(len(K) == n and (n == 0 or set(rd.values()) == set(nodes)), ("degree", "shape"), lambda: "%r %r" % (K, rd)):
            bad = [(rd[i], K[i]) for i in range(n) if K[i] != sum(1 for e in sel if rd[i] in mem[e])]
            C(not bad, ("degree", "entry"), lambda: "%s %r" % (tag, bad[:3]))
        # ---- intersection profile
        outs = []
        for sparse in (True, False):
            P, cd = xgi.intersection_profile(H, order=order, sparse=sparse, index=True)
            P = dense(P)
            outs.append(P)
            if sel and nodes:
                if C(P.shape == (len(sel), len(sel)) and set(cd.values()) == set(sel), ("intersection-profile", "shape"), lambda: "%r" % (P.shape,)):
                    bad = [(cd[i], cd[j], P[i, j]) for i in range(len(sel)) for j in range(len(sel)) if P[i, j] != len(mem[cd[i]] & mem[cd[j]])]
                    C(not bad, ("intersection-profile", "entry"), lambda: "%s %r" % (tag, bad[:3]))
        C(outs[0].shape == outs[1].shape and np.array_equal(outs[0], outs[1]), ("intersection-profile", "sparse-vs-dense"), tag)
    # ---- clique motif = weighted adjacency
    outs = []
    for sparse in (True, False):
        W, rd = xgi.clique_motif_matrix(H, sparse=sparse, index=True)
        W = dense(W)
        outs.append(W)
        if n and edges and C(W.shape == (n, n) and set(rd.values()) == set(nodes), ("clique-motif", "shape"), repr(W.shape)):
            pos = {v: k for k, v in rd.items()}
            bad = [(a, b) for a in nodes for b in nodes if W[pos[a], pos[b]] != (0 if a == b else sum(1 for e in edges if a in mem[e] and b in mem[e]))]
            C(not bad, ("clique-motif", "entry"), lambda: repr(bad[:3]))
    C(outs[0].shape == outs[1].shape and np.array_equal(outs[0], outs[1]), ("clique-motif", "sparse-vs-dense"), "")
    # ---- adjacency tensor
    for order in (1, 2, 3, 4, 5):
        sel = sel_of(order)
        if n and sel and n ** (order + 1) <= (4096 if order <= 3 else 20000):
            B, rd = xgi.adjacency_tensor(H, order, normalized=False, index=True)
            if C(B.shape == (n,) * (order + 1) and set(rd.values()) == set(nodes), ("adjacency-tensor", "shape"), repr(B.shape)):
                pos = {v: k for k, v in rd.items()}
                msel = [mem[e] for e in sel]
                bad = []
                for tup in itertools.product(nodes, repeat=order + 1):
                    want = 1 if len(set(tup)) == order + 1 and set(tup) in msel else 0
                    if B[tuple(pos[t] for t in tup)] != want:
                        bad.append((tup, B[tuple(pos[t] for t in tup)], want))
                        break
                C(not bad, ("adjacency-tensor", "entry"), lambda: "order %d %r" % (order, bad))
    # ---- order-d Laplacians
    for order in (1, 2, 3):
        sel = sel_of(order)
        for rescale in (False, True):
            outs = []
            for sparse in (False, True):
                L, rd = xgi.laplacian(H, order=order, sparse=sparse, rescale_per_node=rescale, index=True)
                L = dense(L)
                outs.append(L)
                if n == 0:
                    continue
                if not C(L.shape == (n, n), ("laplacian", "shape"), lambda: "order %d %r" % (order, L.shape)):
                    continue
                C(np.allclose(L.sum(axis=1), 0, atol=1e-9), ("laplacian", "row-sums"), "order %d" % order)
                C(np.allclose(L, L.T, atol=1e-9), ("laplacian", "symmetric"), "order %d" % order)
                C(nets.min_eig(L) >= -1e-9, ("laplacian", "psd"), "order %d" % order)
                pos = {v: k for k, v in rd.items()} if rd else {v: i for i, v in enumerate(nodes)}
                bad = []
                for a in nodes:
                    for b in nodes:
                        want = order * sum(1 for e in sel if a in mem[e]) if a == b else -sum(1 for e in sel if a in mem[e] and b in mem[e])
                        if rescale:
                            want = want / order
                        if abs(L[pos[a], pos[b]] - want) > 1e-9:
                            bad.append((a, b, L[pos[a], pos[b]], want))
                C(not bad, ("laplacian", "entry"), lambda: "order %d rescale %s sparse %s: %r" % (order, rescale, sparse, bad[:3]))
            C(outs[0].shape == outs[1].shape and np.allclose(outs[0], outs[1], atol=1e-9), ("laplacian", "sparse-vs-dense"), "order %d" % order)
    # ---- multi-order Laplacian = sum_d w_d L_d / <K_d>
    orders, weights = case["orders"], case["weights"]
    for rescale in (False, True):
        outs = []
        for sparse in (False, True):
            L, rd = xgi.multiorder_laplacian(H, orders, weights, sparse=sparse, rescale_per_node=rescale, index=True)
            L = dense(L)
            outs.append(L)
            if n == 0:
                continue
            if not C(L.shape == (n, n) and set(rd.values()) == set(nodes), ("multiorder-laplacian", "shape"), repr(L.shape)):
                continue
            pos = {v: k for k, v in rd.items()}
            want = np.zeros((n, n))
            for d, w in zip(orders, weights):
                sel = sel_of(d)
                if not sel:
                    continue
                Ld = np.zeros((n, n))
                for a in nodes:
                    for b in nodes:
                        Ld[pos[a], pos[b]] = d * sum(1 for e in sel if a in mem[e]) if a == b else -sum(1 for e in sel if a in mem[e] and b in mem[e])
                if rescale:
                    Ld = Ld / d
                meanK = sum(sum(1 for e in sel if a in mem[e]) for a in nodes) / n
                want += w * Ld / meanK
            C(np.allclose(L, want, atol=1e-9), ("multiorder-laplacian", "entry"), lambda: "orders %r weights %r rescale %s sparse %s: got %r want %r" % (orders, weights, rescale, sparse, L.tolist(), want.tolist()))
            C(np.allclose(L.sum(axis=1), 0, atol=1e-9), ("multiorder-laplacian", "row-sums"), "")
            C(np.allclose(L, L.T, atol=1e-9), ("multiorder-laplacian", "symmetric"), "")
            C(nets.min_eig(L) >= -1e-9, ("multiorder-laplacian", "psd"), "")
        C(outs[0].shape == outs[1].shape and np.allclose(outs[0], outs[1], atol=1e-9), ("multiorder-laplacian", "sparse-vs-dense"), "")
    # ---- normalised Laplacian (Zhou et al.): I - Dv^-1/2 H W De^-1 H^T Dv^-1/2, Dv = weighted vertex degrees
    if n and edges and not list(H.nodes.isolates()):
        w_attr = {e: H.edges[e].get("weight", 1) for e in edges}
        Im = np.array([[1.0 if v in mem[e] else 0.0 for e in edges] for v in nodes])
        De = Im.sum(0)
        for weighted in (False, True):
            w = np.array([w_attr[e] if weighted else 1.0 for e in edges], float)
            Dv = Im @ w
            with np.errstate(divide="ignore", invalid="ignore"):  # a node all of whose edges weigh 0 has no textbook row (inf/nan never match)
                want = np.eye(n) - np.diag(Dv ** -0.5) @ Im @ np.diag(w) @ np.diag(1 / De) @ Im.T @ np.diag(Dv ** -0.5)
            Dv_unw = Im.sum(1)
            lib_formula = np.eye(n) - np.diag(Dv_unw ** -0.5) @ Im @ np.diag(w) @ np.diag(1 / De) @ Im.T @ np.diag(Dv_unw ** -0.5)
            nonunit = weighted and any(x != 1 for x in w)
            outs = []
            for sparse in (False, True):
                L, rd = xgi.normalized_hypergraph_laplacian(H, weighted=weighted, sparse=sparse, index=True)
                L = dense(L)
                outs.append(L)
                if not C(L.shape == (n, n) and set(rd.values()) == set(nodes), ("normalized-laplacian", "shape"), repr(L.shape)):
                    continue
                p = [{v: k for k, v in rd.items()}[v] for v in nodes]
                Lp = L[np.ix_(p, p)]
                C(np.allclose(Lp, Lp.T, atol=1e-9), ("normalized-laplacian", "symmetric"), "weighted=%s" % weighted)
                ok_entry = np.allclose(Lp, want, atol=1e-9)
                ok_psd = nets.min_eig(Lp) >= -1e-9
                if nonunit and np.allclose(Lp, lib_formula, atol=1e-9) and not (ok_entry and ok_psd):
                    # K1: vertex degrees stay unweighted when weighted=True
                    ctx.fail(("normalized-laplacian", "weighted", "uses-unweighted-vertex-degrees"), "weights %r: min eigenvalue %.3g, textbook entry match %s" % (w.tolist(), nets.min_eig(Lp), ok_entry))
                    ctx.event("K1-hit")
                else:
                    C(ok_entry, ("normalized-laplacian", "entry"), lambda: "weighted=%s sparse=%s got %r want %r" % (weighted, sparse, Lp.tolist(), want.tolist()))
                    C(ok_psd, ("normalized-laplacian", "psd"), lambda: "weighted=%s min eig %r" % (weighted, nets.min_eig(Lp)))
            if len(outs) == 2:
                C(outs[0].shape == outs[1].shape and np.allclose(outs[0], outs[1], atol=1e-9), ("normalized-laplacian", "sparse-vs-dense"), "weighted=%s" % weighted)
    sizes_share = any(len(mem[a]) != len(mem[b]) and mem[a] & mem[b] for a, b in itertools.combinations(edges, 2))
    ctx.mark(sizes_share and nodes != list(range(n)))


# --------------------------------------------------------------------------------------------
# one network beyond the small scope: edges of 130 nodes (counts that do not fit a signed byte)


def _large(tier, seed, run):
    big = list(range(130))
    spec = {"cls": "H", "kind": "int", "nodes": [], "edges": [[None, big, {}], [None, big[1:] + [130], {"weight": 2}], [None, [0, 131], {}], [None, [5, 6, 7], {}]], "net": {}}
    run({"spec": spec, "orders": [1, 2], "weights": [1, 0.5]})
    return {"large_network_cases": 1, "large_network_note": "4 edges on 132 nodes, two of them with 130 members sharing 129"}


EXTRA = [_large]
