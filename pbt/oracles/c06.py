"""C06 - views and statistics are live and mutually consistent (views / stat objects held across mutations)."""
import math
import operator

import numpy as np
from hypothesis import strategies as st

import xgi

from .. import dhops, hops, nets, scops

PID = "C06"
RULE = (
    "case = class (H / DH / SC) + start network with numeric / string attributes + drawn stat arguments (order, degree, "
    "weight attribute, attribute name, missing; single stats and multi-stat objects) and filter (value, mode incl. between and a callable) + up to 8 "
    "(thorough 14) edits; the node/edge views and every stat object are created ONCE before the history and re-read "
    "after every edit: view order, degree/size/order against brute force from members()/memberships(), handshake sums, "
    "asdict/aslist/asnumpy/aspandas/multi agreement and order, stat[id], filterby/filterby_attr, neighbors, lookup, "
    "Weights include 0 and a negative value; filterby also receives stat objects built with positional arguments. "
    "isolates, singletons, empty, duplicates, maximal. non-trivial = >=1 edit changed the structure between creating "
    "and re-reading the stat objects and the node insertion order differs from sorted order"
)
BUDGET = {"quick": 1200, "thorough": 50000}
ASSUMPTIONS = [
    "members()/memberships() (dimembers/dimemberships) are the primitives the brute-force expectations are computed from; their own two-way consistency is property C01/C02",
    "insertion order is judged history-wise: IDs that survive an edit keep their relative order and new IDs come after them (the order of nodes created by one add_edge call is not specified)",
    "asnumpy is exercised on numeric stats only; duplicates() is judged per class of equal member sets (k-1 of k IDs), not which ID is kept",
]

H_OPS = {"add_node", "add_nodes_from", "remove_node", "remove_nodes_from", "set_node_attributes", "add_edge", "add_edges_from",
         "add_weighted_edges_from", "set_edge_attributes", "double_edge_swap", "random_edge_shuffle", "add_node_to_edge",
         "remove_edge", "remove_edges_from", "remove_node_from_edge", "update"}
DH_OPS = {"add_node", "add_nodes_from", "remove_node", "remove_nodes_from", "set_node_attributes", "add_edge", "add_edges_from",
          "set_edge_attributes", "add_node_to_edge", "remove_edge", "remove_edges_from", "remove_node_from_edge"}
SC_OPS = {"add_node", "add_nodes_from", "remove_node", "remove_nodes_from", "set_node_attributes", "add_simplex", "add_simplices_from",
          "add_weighted_simplices_from", "set_edge_attributes", "remove_simplex_id", "remove_simplex_ids_from", "close"}

MODES = ["eq", "neq", "lt", "gt", "leq", "geq", "between", "callable"]
OPS = {"eq": operator.eq, "neq": operator.ne, "lt": operator.lt, "gt": operator.gt, "leq": operator.le, "geq": operator.ge}


@st.composite
def cases(draw, tier):
    cls = draw(st.sampled_from(["H", "H", "DH", "SC"]))
    kind = draw(nets.kinds)
    spec = draw(nets.net_spec(cls=cls, kind=kind, max_edges=6, allow_empty=(cls != "SC"), with_attrs=False))
    n = 8 if tier == "quick" else 14
    if cls == "H":
        op = hops.op_strategy(kind, none_p=False, bulk_empty=False, heavy=False, only=H_OPS)
    elif cls == "DH":
        op = dhops.op_strategy(kind, none_p=False, only=DH_OPS)
    else:
        op = scops.op_strategy(kind, none_p=False, unique_bulk=True, only=SC_OPS)
    return {
        "cls": cls,
        "kind": kind,
        "base": spec,
        "nattr": draw(st.lists(st.tuples(st.integers(0, 6), st.integers(-1, 3)).map(list), max_size=4)),
        "eattr": draw(st.lists(st.tuples(st.integers(0, 6), st.integers(-1, 3), st.sampled_from([0, 0.0, 0.5, 1, 2, 3, -1])).map(list), max_size=4)),  # weights incl. 0 and a negative one
        "args": {"order": draw(st.integers(0, 3)), "degree": draw(st.integers(0, 3)), "missing": draw(st.sampled_from([None, 0, 7])),
                 "s": draw(st.integers(1, 3))},
        "filter": {"val": draw(st.integers(0, 3)), "hi": draw(st.integers(0, 4)), "mode": draw(st.sampled_from(MODES))},
        "ops": draw(st.lists(op, max_size=n)),
    }


def strategy(tier):
    return cases(tier)


def _missing(x):
    return x is None or (isinstance(x, float) and math.isnan(x))


def same(a, b):
    if _missing(a) and _missing(b):  # pandas/numpy represent a missing value (None) as NaN
        return True
    try:
        return bool(a == b)
    except Exception:  # noqa: BLE001
        return False


def cmp_mode(mode, v, val, hi):
    if mode == "between":
        return val <= v <= hi
    if mode == "callable":
        return v % 2 == val % 2
    return OPS[mode](v, val)


def mode_arg(mode, val, hi):
    if mode == "between":
        return (val, hi), "between"
    if mode == "callable":
        return val, (lambda v, x: v % 2 == x % 2)
    return val, mode


def pandas_keeps(ids):
    """pandas turns an index that mixes floats (or complex numbers) with ints into float64 (complex128): an int beyond 2**53 next to a float label is rounded
    by pandas itself (9007199254740993 -> 9007199254740992.0); such an index is compared by length only"""
    big = any(isinstance(x, int) and not isinstance(x, bool) and abs(x) > 2**53 for x in ids)
    return not (big and any(isinstance(x, (float, complex)) for x in ids))


def check_stat(ctx, label, stat, view_ids, numeric=True):
    """asdict / aslist / asnumpy / aspandas / stat[id] agree and follow view order"""
    d = stat.asdict()
    ctx.check(list(d) == view_ids, ("stat-order", label, "asdict"), lambda: "%r vs view %r" % (list(d), view_ids))
    l = stat.aslist()
    ctx.check(len(l) == len(view_ids) and all(same(x, d[k]) for x, k in zip(l, view_ids)), ("stat-agree", label, "aslist"), lambda: "%r vs %r" % (l, d))
    if numeric:
        a = stat.asnumpy()
        ctx.check(len(a) == len(view_ids) and all(same(float(x), float(d[k])) for x, k in zip(a.tolist(), view_ids)), ("stat-agree", label, "asnumpy"), lambda: "%r vs %r" % (a, d))
    p = stat.aspandas()
    if pandas_keeps(view_ids):
        ctx.check(list(p.index) == view_ids, ("stat-order", label, "aspandas"), lambda: "%r vs view %r" % (list(p.index), view_ids))
    else:
        ctx.check(len(p.index) == len(view_ids), ("stat-order", label, "aspandas-length"), lambda: "%r vs view %r" % (list(p.index), view_ids))
    if list(p.index) == view_ids:
        ctx.check(all(same(p.iloc[i], d[k]) or (numeric and same(float(p.iloc[i]), float(d[k]))) for i, k in enumerate(view_ids)), ("stat-agree", label, "aspandas"), lambda: "%r vs %r" % (p.tolist(), d))
    for k in view_ids[:3]:
        ctx.check(same(stat[k], d[k]), ("stat-agree", label, "getitem"), lambda: "%r: %r vs %r" % (k, stat[k], d[k]))
    return d


def check_multi(ctx, label, view, stats, view_ids, held=None):
    """held: a MultiStat object created before the history (it must stay live); else a fresh one"""
    m = view.multi(stats) if held is None else held
    names = [s.name for s in stats]
    single = {s.name: s.asdict() for s in stats}
    md = m.asdict()
    ctx.check(list(md) == view_ids and all(md[k] == {nm: single[nm][k] for nm in names} or all(same(md[k][nm], single[nm][k]) for nm in names) for k in view_ids),
              ("multi", label, "asdict"), lambda: repr(md)[:200])
    ctx.check(m.asdict(transpose=True).keys() == single.keys() and all(list(v) == view_ids for v in m.asdict(transpose=True).values()), ("multi", label, "asdict-transpose"), "")
    ctx.check(m.asdict(inner=list) == {k: [single[nm][k] for nm in names] for k in view_ids} or all(all(same(x, single[nm][k]) for x, nm in zip(m.asdict(inner=list)[k], names)) for k in view_ids), ("multi", label, "asdict-list"), "")
    al = m.aslist()
    ctx.check(len(al) == len(view_ids) and all(all(same(x, single[nm][k]) for x, nm in zip(row, names)) for row, k in zip(al, view_ids)), ("multi", label, "aslist"), lambda: repr(al)[:200])
    alt = m.aslist(transpose=True)
    ctx.check(len(alt) == len(names) and all(all(same(x, single[nm][k]) for x, k in zip(col, view_ids)) for col, nm in zip(alt, names)), ("multi", label, "aslist-transpose"), "")
    ald = m.aslist(inner=dict)
    ctx.check(len(ald) == len(view_ids), ("multi", label, "aslist-dict"), "")
    if view_ids:
        arr = m.asnumpy()
        ctx.check(arr.shape == (len(view_ids), len(names)) and all(same(float(arr[i, j]), float(single[nm][k])) for i, k in enumerate(view_ids) for j, nm in enumerate(names)), ("multi", label, "asnumpy"), lambda: repr(arr)[:200])
        df = m.aspandas()
        if pandas_keeps(view_ids):
            ctx.check(list(df.index) == view_ids, ("multi", label, "aspandas-order"), lambda: "%r vs %r" % (list(df.index), view_ids))
        ctx.check(list(df.columns) == names, ("multi", label, "aspandas-columns"), "")
        if list(df.index) == view_ids and list(df.columns) == names:
            ctx.check(all(same(float(df.iloc[i, j]), float(single[nm][k])) for i, k in enumerate(view_ids) for j, nm in enumerate(names)), ("multi", label, "aspandas-values"), "")


def order_ok(prev, cur):
    """IDs that survive keep their relative order; new IDs come after all survivors"""
    prevset = set(prev)
    surv_now = [x for x in cur if x in prevset]
    surv_before = [x for x in prev if x in set(cur)]
    if surv_now != surv_before:
        return False
    seen_new = False
    for x in cur:
        if x not in prevset:
            seen_new = True
        elif seen_new:
            return False
    return True


class Held:
    """view and stat objects created once, before the history"""

    def __init__(self, H, cls, args):
        self.nv, self.ev = H.nodes, H.edges
        o, d = args["order"], args["degree"]
        nv, ev = self.nv, self.ev
        if cls == "DH":
            self.nstats = {
                "degree": nv.degree, "in_degree": nv.in_degree, "out_degree": nv.out_degree,
                "degree(order)": nv.degree(order=o), "in_degree(order)": nv.in_degree(order=o), "out_degree(order)": nv.out_degree(order=o),
                "degree(weight)": nv.degree(weight="wt"), "in_degree(weight)": nv.in_degree(weight="wt"), "out_degree(order,weight)": nv.out_degree(order=o, weight="wt"),
            }
            self.estats = {
                "size": ev.size, "order": ev.order, "head_size": ev.head_size, "tail_size": ev.tail_size, "head_order": ev.head_order, "tail_order": ev.tail_order,
                "size(degree)": ev.size(degree=d), "order(degree)": ev.order(degree=d), "head_size(degree)": ev.head_size(degree=d),
                "tail_size(degree)": ev.tail_size(degree=d), "head_order(degree)": ev.head_order(degree=d), "tail_order(degree)": ev.tail_order(degree=d),
            }
        else:
            self.nstats = {
                "degree": nv.degree, "degree(order)": nv.degree(order=o), "degree(weight)": nv.degree(weight="wt"),
                "degree(order,weight)": nv.degree(order=o, weight="wt"), "average_neighbor_degree": nv.average_neighbor_degree,
                "clustering_coefficient": nv.clustering_coefficient, "local_clustering_coefficient": nv.local_clustering_coefficient,
                "two_node_clustering_coefficient": nv.two_node_clustering_coefficient,
            }
            self.estats = {"size": ev.size, "order": ev.order, "size(degree)": ev.size(degree=d), "order(degree)": ev.order(degree=d)}
        self.nmulti = self.emulti = None
        self.nattr = nv.attrs("c", missing=args["missing"])
        self.eattr = ev.attrs("c", missing=args["missing"])
        self.nattr_all = nv.attrs
        self.eattr_all = ev.attrs


def expectations(H, cls, args):
    """brute force from the primitives"""
    o, d = args["order"], args["degree"]
    nodes, edges = list(H.nodes), list(H.edges)
    w = {e: H.edges[e].get("wt", 1) for e in edges}
    if cls == "DH":
        dm = {e: H.edges.dimembers(e) for e in edges}
        tail = {e: set(dm[e][0]) for e in edges}
        head = {e: set(dm[e][1]) for e in edges}
        mem = {e: tail[e] | head[e] for e in edges}
        dms = {n: H.nodes.dimemberships(n) for n in nodes}
        inm = {n: set(dms[n][0]) for n in nodes}
        outm = {n: set(dms[n][1]) for n in nodes}
        ms = {n: inm[n] | outm[n] for n in nodes}
        deg = {n: len(ms[n]) for n in nodes}
        ne = {
            "degree": deg, "in_degree": {n: len(inm[n]) for n in nodes}, "out_degree": {n: len(outm[n]) for n in nodes},
            "degree(order)": {n: sum(1 for e in ms[n] if len(mem[e]) == o + 1) for n in nodes},
            "in_degree(order)": {n: sum(1 for e in inm[n] if len(mem[e]) == o + 1) for n in nodes},
            "out_degree(order)": {n: sum(1 for e in outm[n] if len(mem[e]) == o + 1) for n in nodes},
            "degree(weight)": {n: sum(w[e] for e in ms[n]) for n in nodes},
            "in_degree(weight)": {n: sum(w[e] for e in inm[n]) for n in nodes},
            "out_degree(order,weight)": {n: sum(w[e] for e in outm[n] if len(mem[e]) == o + 1) for n in nodes},
        }
        ee = {
            "size": {e: len(mem[e]) for e in edges}, "order": {e: len(mem[e]) - 1 for e in edges},
            "head_size": {e: len(head[e]) for e in edges}, "tail_size": {e: len(tail[e]) for e in edges},
            "head_order": {e: len(head[e]) - 1 for e in edges}, "tail_order": {e: len(tail[e]) - 1 for e in edges},
            "size(degree)": {e: sum(deg[n] == d for n in mem[e]) for e in edges},
            "order(degree)": {e: sum(deg[n] == d for n in mem[e]) - 1 for e in edges},
            "head_size(degree)": {e: sum(deg[n] == d for n in head[e]) for e in edges},
            "tail_size(degree)": {e: sum(deg[n] == d for n in tail[e]) for e in edges},
            "head_order(degree)": {e: sum(deg[n] == d for n in head[e]) - 1 for e in edges},
            "tail_order(degree)": {e: sum(deg[n] == d for n in tail[e]) - 1 for e in edges},
        }
        extra = {"tail": tail, "head": head, "inm": inm, "outm": outm}
    else:
        mem = {e: set(H.edges.members(e)) for e in edges}
        ms = {n: set(H.nodes.memberships(n)) for n in nodes}
        deg = {n: len(ms[n]) for n in nodes}
        nb = {n: {x for e in ms[n] for x in mem[e]} - {n} for n in nodes}
        ne = {
            "degree": deg,
            "degree(order)": {n: sum(1 for e in ms[n] if len(mem[e]) == o + 1) for n in nodes},
            "degree(weight)": {n: sum(w[e] for e in ms[n]) for n in nodes},
            "degree(order,weight)": {n: sum(w[e] for e in ms[n] if len(mem[e]) == o + 1) for n in nodes},
            "average_neighbor_degree": {n: (sum(deg[x] for x in nb[n]) / len(nb[n]) if nb[n] else 0) for n in nodes},
        }
        ee = {
            "size": {e: len(mem[e]) for e in edges}, "order": {e: len(mem[e]) - 1 for e in edges},
            "size(degree)": {e: sum(deg[n] == d for n in mem[e]) for e in edges},
            "order(degree)": {e: sum(deg[n] == d for n in mem[e]) - 1 for e in edges},
        }
        extra = {"nb": nb}
    return nodes, edges, mem, ms, ne, ee, extra


def verify(ctx, H, cls, held, case, prev_nodes, prev_edges, edges_reordered):
    args, flt = case["args"], case["filter"]
    errs = nets.integrity(H)
    if errs:  # the primitives themselves disagree (property C01/C02): nothing below can be evaluated
        ctx.fail(("primitives", "members-and-memberships-disagree", errs[0][0]), errs[0][1])
        return
    nodes, edges, mem, ms, ne, ee, extra = expectations(H, cls, args)
    nv, ev = held.nv, held.ev
    # ---- views list exactly the current IDs, in insertion order
    ctx.check(list(nv) == nodes and list(ev) == edges and len(nv) == H.num_nodes and len(ev) == H.num_edges, ("view", "held-view-stale"), lambda: "%r %r" % (list(nv), nodes))
    ctx.check(list(nv) == list(H._node) and list(ev) == list(H._edge), ("view", "not-the-current-ids"), "")
    ctx.check(order_ok(prev_nodes, nodes), ("view", "node-insertion-order"), lambda: "%r -> %r" % (prev_nodes, nodes))
    if not edges_reordered:
        ctx.check(order_ok(prev_edges, edges), ("view", "edge-insertion-order"), lambda: "%r -> %r" % (prev_edges, edges))
    ctx.check(all(n in nv for n in nodes) and all(e in ev for e in edges), ("view", "contains"), "")
    # ---- stats are computed from the current structure
    for label, exp in ne.items():
        got = check_stat(ctx, "nodes." + label, held.nstats[label], nodes)
        ctx.check(all(same(got.get(k), exp[k]) or (isinstance(exp[k], float) and abs(got.get(k, 1e9) - exp[k]) < 1e-9) for k in nodes), ("stat-value", "nodes." + label), lambda: "got %r expected %r" % (got, exp))
    for label in held.nstats:
        if label not in ne:
            check_stat(ctx, "nodes." + label, held.nstats[label], nodes)
    for label, exp in ee.items():
        got = check_stat(ctx, "edges." + label, held.estats[label], edges)
        ctx.check(all(same(got.get(k), exp[k]) for k in edges), ("stat-value", "edges." + label), lambda: "got %r expected %r" % (got, exp))
    if cls == "DH":
        ctx.check(sum(ne["in_degree"].values()) == sum(ee["head_size"].values()) == sum(held.nstats["in_degree"].aslist()), ("handshake", "in_degree-vs-head_size"), "")
        ctx.check(sum(ne["out_degree"].values()) == sum(ee["tail_size"].values()) == sum(held.nstats["out_degree"].aslist()), ("handshake", "out_degree-vs-tail_size"), "")
    else:
        ctx.check(sum(held.nstats["degree"].aslist()) == sum(held.estats["size"].aslist()) == sum(len(m) for m in mem.values()), ("handshake", "degree-vs-size"), "")
    # attribute stats
    na = check_stat(ctx, "nodes.attrs(c)", held.nattr, nodes, numeric=False)
    ctx.check(na == {n: H.nodes[n].get("c", args["missing"]) for n in nodes}, ("stat-value", "nodes.attrs(c)"), lambda: repr(na))
    ea = check_stat(ctx, "edges.attrs(c)", held.eattr, edges, numeric=False)
    ctx.check(ea == {e: H.edges[e].get("c", args["missing"]) for e in edges}, ("stat-value", "edges.attrs(c)"), lambda: repr(ea))
    ctx.check(held.nattr_all.asdict() == {n: dict(H.nodes[n]) for n in nodes} and list(held.nattr_all.asdict()) == nodes, ("stat-value", "nodes.attrs"), "")
    ctx.check(held.eattr_all.asdict() == {e: dict(H.edges[e]) for e in edges} and list(held.eattr_all.asdict()) == edges, ("stat-value", "edges.attrs"), "")
    # multi
    nlabels = list(ne)[:3]
    check_multi(ctx, "nodes", nv, [held.nstats[k] for k in nlabels], nodes)
    check_multi(ctx, "edges", ev, [held.estats[k] for k in list(ee)[:3]], edges)
    # multi-stat objects created once, before the history, and evaluated before it as well
    if held.nmulti is None:
        held.nmulti = nv.multi([held.nstats[k] for k in nlabels])
        held.emulti = ev.multi([held.estats[k] for k in list(ee)[:3]])
    check_multi(ctx, "nodes-held", nv, [held.nstats[k] for k in nlabels], nodes, held=held.nmulti)
    check_multi(ctx, "edges-held", ev, [held.estats[k] for k in list(ee)[:3]], edges, held=held.emulti)
    m2 = nv.multi(["degree", held.nstats["degree(order)"]]).asdict()
    ctx.check(m2 == {n: {"degree": ne["degree"][n], held.nstats["degree(order)"].name: ne["degree(order)"][n]} for n in nodes}, ("multi", "nodes", "by-name"), lambda: repr(m2)[:200])
    # ---- restricted views: the bulk accessors list exactly the IDs of the view, in its order
    eb, nb = edges[::2], nodes[1::2]
    if eb:
        rv = H.edges(eb)
        ctx.check(list(rv) == eb, ("view", "restricted-edges", "ids"), lambda: "%r vs %r" % (list(rv), eb))
        if cls == "DH":
            one = {e: tuple(map(set, H.edges.dimembers(e))) for e in eb}
            got_l = [tuple(map(set, x)) for x in rv.dimembers()]
            got_d = {e: tuple(map(set, x)) for e, x in rv.dimembers(dtype=dict).items()}
            ctx.check(got_l == [one[e] for e in eb] and got_d == one and list(got_d) == eb, ("view", "restricted-edges", "dimembers"), lambda: "%r / %r vs %r" % (got_l, got_d, one))
        one = {e: set(H.edges.members(e)) for e in eb}
        got_l = [set(x) for x in rv.members()]
        got_d = {e: set(x) for e, x in rv.members(dtype=dict).items()}
        ctx.check(got_l == [one[e] for e in eb] and got_d == one and list(got_d) == eb, ("view", "restricted-edges", "members"), lambda: "%r / %r vs %r" % (got_l, got_d, one))
    if nb:
        rn = H.nodes(nb)
        ctx.check(list(rn) == nb, ("view", "restricted-nodes", "ids"), lambda: "%r vs %r" % (list(rn), nb))
        if cls == "DH":
            one = {n: tuple(map(set, H.nodes.dimemberships(n))) for n in nb}
            got_d = {n: tuple(map(set, x)) for n, x in rn.dimemberships().items()}
        else:
            one = {n: set(H.nodes.memberships(n)) for n in nb}
            got_d = {n: set(x) for n, x in rn.memberships().items()}
        ctx.check(got_d == one and list(got_d) == nb, ("view", "restricted-nodes", "memberships"), lambda: "%r vs %r" % (got_d, one))
    # ---- filterby / filterby_attr
    val, hi, mode = flt["val"], flt["hi"], flt["mode"]
    v, mo = mode_arg(mode, val, hi)
    got = list(nv.filterby("degree", v, mo))
    ctx.check(got == [n for n in nodes if cmp_mode(mode, ne["degree"][n], val, hi)], ("filterby", "nodes.degree", mode), lambda: "%r" % (got,))
    got = list(nv.filterby(held.nstats["degree(order)"], v, mo))
    ctx.check(got == [n for n in nodes if cmp_mode(mode, ne["degree(order)"][n], val, hi)], ("filterby", "nodes.degree(order)-stat-object", mode), lambda: "%r" % (got,))
    if cls != "DH":
        o_ = args["order"]
        # a stat object built with a *positional* argument (the documented form of e.g. attrs("c"))
        got = list(nv.filterby(nv.degree(o_), v, mo))
        want = [n for n in nodes if cmp_mode(mode, ne["degree(order)"][n], val, hi)]
        ctx.check(got == want, ("filterby", "nodes.degree(order)-positional-stat-object", mode), lambda: "%r vs %r" % (got, want))
    got = list(ev.filterby("size", v, mo))
    ctx.check(got == [e for e in edges if cmp_mode(mode, ee["size"][e], val, hi)], ("filterby", "edges.size", mode), lambda: "%r" % (got,))
    got = list(ev.filterby("order", v, mo))
    ctx.check(got == [e for e in edges if cmp_mode(mode, ee["order"][e], val, hi)], ("filterby", "edges.order", mode), lambda: "%r" % (got,))
    for view, ids, tab, nm in ((nv, nodes, H.nodes, "nodes"), (ev, edges, H.edges, "edges")):
        got = list(view.filterby_attr("c", v, mo))
        ctx.check(got == [k for k in ids if "c" in tab[k] and cmp_mode(mode, tab[k]["c"], val, hi)], ("filterby_attr", nm, mode, "no-missing"), lambda: "%r" % (got,))
        got = list(view.filterby_attr("c", v, mo, missing=1))
        ctx.check(got == [k for k in ids if cmp_mode(mode, tab[k].get("c", 1), val, hi)], ("filterby_attr", nm, mode, "missing=1"), lambda: "%r" % (got,))
    # ---- set-theoretic definitions
    s = args["s"]
    if cls == "DH":
        ctx.check(set(nv.isolates()) == {n for n in nodes if not ms[n]}, ("sets", "isolates"), "")
        ctx.check(set(ev.empty()) == {e for e in edges if not mem[e]}, ("sets", "empty"), "")
        for e in edges[:4]:
            ctx.check(set(ev.members(e)) == mem[e] and set(ev.head(e)) == extra["head"][e] and set(ev.tail(e)) == extra["tail"][e], ("sets", "members-head-tail"), "")
        for n in nodes[:4]:
            ctx.check(set(nv.memberships(n)) == ms[n], ("sets", "memberships"), "")
        return
    for n in nodes:
        exp = {x for x in nodes if x != n and len(ms[n] & ms[x]) >= s}
        ctx.check(nv.neighbors(n, s=s) == exp, ("sets", "node-neighbors", "s=%d" % s), lambda: "%r: %r vs %r" % (n, nv.neighbors(n, s=s), exp))
    for e in edges:
        exp = {x for x in edges if x != e and len(mem[e] & mem[x]) >= s}
        ctx.check(ev.neighbors(e, s=s) == exp, ("sets", "edge-neighbors", "s=%d" % s), lambda: "%r: %r vs %r" % (e, ev.neighbors(e, s=s), exp))
    ctx.check(list(nv.isolates()) == [n for n in nodes if not ms[n]], ("sets", "isolates"), "")
    ctx.check(set(nv.isolates(ignore_singletons=True)) == {n for n in nodes if not any(len(mem[e]) >= 2 for e in ms[n])}, ("sets", "isolates-ignore-singletons"), "")
    ctx.check(list(ev.singletons()) == [e for e in edges if len(mem[e]) == 1], ("sets", "singletons"), "")
    ctx.check(list(ev.empty()) == [e for e in edges if len(mem[e]) == 0], ("sets", "empty"), "")
    classes = {}
    for e in edges:
        classes.setdefault(frozenset(mem[e]), []).append(e)
    dups = list(ev.duplicates())
    ctx.check(len(dups) == len(set(dups)) and all(len(set(ids) & set(dups)) == len(ids) - 1 for ids in classes.values()), ("sets", "edge-duplicates"), lambda: "%r classes %r" % (dups, list(classes.values())))
    nclasses = {}
    for n in nodes:
        nclasses.setdefault(frozenset(ms[n]), []).append(n)
    ndups = list(nv.duplicates())
    ctx.check(len(ndups) == len(set(ndups)) and all(len(set(ids) & set(ndups)) == len(ids) - 1 for ids in nclasses.values()), ("sets", "node-duplicates"), lambda: "%r" % (ndups,))
    for fs, ids in list(classes.items())[:3]:
        ctx.check(list(ev.lookup(set(fs))) == ids, ("sets", "edge-lookup"), lambda: "%r" % (list(ev.lookup(set(fs))),))
    probe = set(list(nodes)[:2])
    ctx.check(list(ev.lookup(probe)) == [e for e in edges if mem[e] == probe], ("sets", "edge-lookup-probe"), "")
    for fs, ids in list(nclasses.items())[:2]:
        ctx.check(list(nv.lookup(set(fs))) == ids, ("sets", "node-lookup"), "")
    for strict in (False, True):
        got = set(ev.maximal(strict=strict))
        if strict:
            exp = {e for e in edges if not any(o != e and mem[e] <= mem[o] for o in edges)}
        else:
            exp = {e for e in edges if not any(mem[e] < mem[o] for o in edges)}
        ctx.check(got == exp, ("sets", "maximal", "strict=%s" % strict), lambda: "got %r expected %r members %r" % (got, exp, mem))


def run_case(case, ctx):
    cls = case["cls"]
    ctx.event("class:" + cls)
    H = nets.build(case["base"])
    nodes, edges = list(H.nodes), list(H.edges)
    for i, c in case["nattr"]:
        if nodes:
            H.nodes[nodes[i % len(nodes)]]  # noqa: B018  (exists)
            H.set_node_attributes({nodes[i % len(nodes)]: {"c": c}})
    for i, c, w in case["eattr"]:
        if edges:
            H.set_edge_attributes({edges[i % len(edges)]: {"c": c, "wt": w}})
    held = Held(H, cls, case["args"])
    mod = {"H": hops, "DH": dhops, "SC": scops}[cls]
    verify(ctx, H, cls, held, case, nodes, edges, False)
    changed = False
    for step, op in enumerate(case["ops"]):
        if ctx.fails:
            break
        prev_nodes, prev_edges = list(H.nodes), list(H.edges)
        before = nets.structure(H)
        cop = mod.concretise(H, op)
        try:
            r = mod.apply_real(H, cop)
            if cls == "DH":
                H = r
        except Exception:  # noqa: BLE001  (judged by C05)
            ctx.event("op-raised")
        if nets.structure(H) != before:
            changed = True
        nf = len(ctx.fails)
        verify(ctx, H, cls, held, case, prev_nodes, prev_edges, False)
        if len(ctx.fails) > nf:
            ctx.fails[nf:] = [(b, "after step %d %r: %s" % (step, cop, d)) for b, d in ctx.fails[nf:]][:6]
    final_nodes = list(H.nodes)
    try:
        unsorted = final_nodes != sorted(final_nodes)
    except TypeError:
        unsorted = True
    ctx.mark(changed and unsorted)
    if changed:
        ctx.event("mutated-between-create-and-read")
