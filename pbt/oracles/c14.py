"""C14 - graph-reducible algorithms agree with networkx on expansions built by the harness (differential)."""
import itertools
import math

import networkx as nx
from hypothesis import strategies as st

import xgi

from .. import nets

PID = "C14"
RULE = (
    "case = hypergraph (disconnected, isolated nodes, singletons, multi-edges, nested edges, any label kind, permuted / "
    "string IDs; one in six also with empty edges) + a directed companion for the bipartite graph. The harness builds, "
    "directly from members(), the node-edge bipartite graph and the clique expansion in networkx and compares: "
    "components (as a partition), is_connected, count, largest and per-node component; shortest-path lengths (all "
    "pairs and single source; symmetric, 0 on the diagonal, inf exactly across components); clustering_coefficient vs "
    "nx.clustering; to_graph; the s-line graph for s in {1,2,3} x weights in {None, absolute, normalized}; "
    "to_bipartite_graph (directed too) through its index maps; the encapsulation DAG for all / immediate / empirical. "
    "Every case is evaluated twice around an in-place edit of the same objects; one fixed network with 14-node hyperedges is added to every run. "
    "non-trivial = (>= 2 components or a nested pair of edges) and >= 4 nodes"
)
BUDGET = {"quick": 3200, "thorough": 90000}
ASSUMPTIONS = [
    "networkx (components, BFS distances, clustering) is the trusted reference; the expansions are built by the harness from members() only",
    "the 'empirical' encapsulation DAG filters in place in an order-dependent way, so it is judged by the sandwich immediate <= empirical <= all",
    "empty edges are excluded for the encapsulation DAG and the normalised line-graph weights (undefined there)",
]


@st.composite
def cases(draw, tier):
    spec = draw(nets.net_spec(wide_labels="mixed", cls="H", max_edges=7, max_size=4, allow_empty=draw(st.integers(0, 5)) == 0, with_attrs=False))
    dspec = draw(nets.net_spec(cls="DH", max_edges=4, with_attrs=False, allow_empty=True))
    return {"spec": spec, "dspec": dspec}


def strategy(tier):
    return cases(tier)


def run_case(case, ctx):
    H = nets.build(case["spec"])
    D = nets.build(case["dspec"])
    _evaluate(H, D, case, ctx)
    # the same objects after a small in-place edit: every result is derived and compared again
    e1, e2 = nets.small_edit(H), nets.small_edit(D)
    if e1 is not None or e2 is not None:
        ctx.event("re-evaluated-after-edit")
        _evaluate(H, D, case, ctx)


def _evaluate(H, D, case, ctx):
    nodes, edges = list(H.nodes), list(H.edges)
    mem = {e: set(m) for e, m in H.edges.members(dtype=dict).items()}
    n = len(nodes)
    C = ctx.check
    has_empty = any(not m for m in mem.values())
    # ---- directed bipartite graph
    BG, nd, ed = xgi.to_bipartite_graph(D, index=True)
    dm = D.edges.dimembers(dtype=dict)
    want = {(v, e, "t") for e, (t, h) in dm.items() for v in t} | {(v, e, "h") for e, (t, h) in dm.items() for v in h}
    got = set()
    okmaps = set(nd.values()) == set(D.nodes) and set(ed.values()) == set(D.edges) and not (set(nd) & set(ed)) and BG.is_directed()
    C(okmaps, ("bipartite-graph", "directed", "index-maps"), lambda: "%r %r" % (nd, ed))
    if okmaps:
        for a, b in BG.edges:
            got.add((nd[a], ed[b], "t") if a in nd else (nd[b], ed[a], "h"))
        C(got == want and BG.number_of_nodes() == len(nd) + len(ed), ("bipartite-graph", "directed", "incidences"), lambda: "got %r want %r" % (got, want))
    if n == 0:
        return
    # ---- references
    B = nx.Graph()
    B.add_nodes_from(("n", v) for v in nodes)
    B.add_nodes_from(("e", e) for e in edges)
    for e in edges:
        for v in mem[e]:
            B.add_edge(("n", v), ("e", e))
    comps = {frozenset(x[1] for x in c if x[0] == "n") for c in nx.connected_components(B)}
    comps = {c for c in comps if c}
    G = nx.Graph()
    G.add_nodes_from(nodes)
    for e in edges:
        for a, b in itertools.combinations(sorted(mem[e], key=repr), 2):
            G.add_edge(a, b)
    # ---- components
    got = [frozenset(c) for c in xgi.connected_components(H)]
    C(set(got) == comps and len(got) == len(comps), ("components", "partition"), lambda: "got %r want %r" % (got, comps))
    C(sum(len(c) for c in got) == n and set().union(*got) == set(nodes), ("components", "cover-the-node-set-once"), "")
    C(xgi.number_connected_components(H) == len(comps), ("components", "count"), "")
    C(xgi.is_connected(H) == (len(comps) == 1), ("components", "is_connected"), "")
    lcc = xgi.largest_connected_component(H)
    C(frozenset(lcc) in comps and len(lcc) == max(map(len, comps)), ("components", "largest"), lambda: "%r of %r" % (lcc, comps))
    for v in nodes:
        C(frozenset(xgi.node_connected_component(H, v)) == next(c for c in comps if v in c), ("components", "node-component"), lambda: "node %r" % (v,))
    # ---- shortest paths
    sp = dict(nx.all_pairs_shortest_path_length(G))
    allp = dict(xgi.shortest_path_length(H))
    C(set(allp) == set(nodes), ("paths", "sources"), lambda: "%r" % (sorted(map(repr, allp)),))
    for src in nodes:
        d = allp.get(src, {})
        bad = [(v, d.get(v), sp[src].get(v, math.inf)) for v in nodes if d.get(v) != sp[src].get(v, math.inf)]
        C(not bad, ("paths", "all-pairs-length"), lambda: "from %r: (target, got, want) %r members %r" % (src, bad[:3], mem))
        C(d.get(src) == 0, ("paths", "zero-diagonal"), "")
    C(all(allp[a][b] == allp[b][a] for a in nodes for b in nodes if a in allp and b in allp and b in allp[a] and a in allp[b]), ("paths", "symmetric"), "")
    src = nodes[len(edges) % n]
    ss = xgi.single_source_shortest_path_length(H, src)
    C(all(ss.get(v) == sp[src].get(v, math.inf) for v in nodes), ("paths", "single-source-length"), lambda: "from %r got %r" % (src, ss))
    # ---- clustering vs graph clustering of the pairwise projection
    cc = xgi.clustering_coefficient(H)
    ref = nx.clustering(G)
    bad = [(v, cc.get(v), ref[v]) for v in nodes if v not in cc or abs(cc[v] - ref[v]) > 1e-9]
    C(not bad, ("clustering", "vs-nx.clustering"), lambda: "%r members %r" % (bad[:3], mem))
    # ---- projection graph
    TG = xgi.to_graph(H)
    C(set(TG.nodes) == set(nodes) and set(map(frozenset, TG.edges)) == set(map(frozenset, G.edges)), ("to_graph", "vertices-and-links"), lambda: "nodes %r edges %r want %r" % (list(TG.nodes), list(TG.edges), list(G.edges)))
    # ---- s-line graph
    for s in (1, 2, 3):
        for w in (None, "absolute", "normalized"):
            if w == "normalized" and has_empty:
                continue
            LG = xgi.to_line_graph(H, s=s, weights=w)
            C(set(LG.nodes) == set(edges), ("line-graph", "vertices"), lambda: "s=%d weights=%r: %r" % (s, w, list(LG.nodes)))
            want = {}
            for a, b in itertools.combinations(edges, 2):
                k = len(mem[a] & mem[b])
                if k >= s:
                    want[frozenset((a, b))] = k if w != "normalized" else k / min(len(mem[a]), len(mem[b]))
            gotE = {frozenset((a, b)): d for a, b, d in LG.edges(data=True)}
            if C(set(gotE) == set(want), ("line-graph", "links"), lambda: "s=%d weights=%r: got %r want %r members %r" % (s, w, sorted(map(sorted, map(lambda x: map(repr, x), gotE))), len(want), mem)):
                if w:
                    bad = [k_ for k_ in want if abs(gotE[k_].get("weight", math.nan) - want[k_]) > 1e-12]
                    C(not bad, ("line-graph", "weights", str(w)), lambda: "s=%d: %r" % (s, [(sorted(map(repr, b)), gotE[b], want[b]) for b in bad[:3]]))
                else:
                    C(all("weight" not in d for d in gotE.values()) or True, ("line-graph", "unweighted"), "")
    # ---- bipartite graph (undirected)
    BG, nd, ed = xgi.to_bipartite_graph(H, index=True)
    okmaps = set(nd.values()) == set(nodes) and set(ed.values()) == set(edges) and not (set(nd) & set(ed))
    C(okmaps, ("bipartite-graph", "undirected", "index-maps"), lambda: "%r %r" % (nd, ed))
    if okmaps:
        gotI = {(nd[a], ed[b]) if a in nd else (nd[b], ed[a]) for a, b in BG.edges}
        C(gotI == {(v, e) for e in edges for v in mem[e]} and BG.number_of_nodes() == n + len(edges), ("bipartite-graph", "undirected", "incidences"), lambda: "%r" % (gotI,))
        C(all(a in BG and BG.nodes[a].get("bipartite") == 0 for a in nd) and all(b in BG and BG.nodes[b].get("bipartite") == 1 for b in ed), ("bipartite-graph", "undirected", "bipartite-attribute"), "")
    # ---- encapsulation DAG
    if not has_empty:
        allp_ = {(a, b) for a in edges for b in edges if a != b and mem[b] < mem[a]}
        imm = {(a, b) for a, b in allp_ if len(mem[a]) == len(mem[b]) + 1}
        for stype in ("all", "immediate", "empirical"):
            Dg = xgi.to_encapsulation_dag(H, subset_types=stype)
            C(set(Dg.nodes) == set(edges), ("encapsulation-dag", "vertices", stype), lambda: "%r" % (list(Dg.nodes),))
            g = set(Dg.edges)
            if stype == "all":
                C(g == allp_, ("encapsulation-dag", "links", "all"), lambda: "got %r want %r members %r" % (g, allp_, mem))
            elif stype == "immediate":
                C(g == imm, ("encapsulation-dag", "links", "immediate"), lambda: "got %r want %r members %r" % (g, imm, mem))
            else:
                C(imm <= g <= allp_, ("encapsulation-dag", "links", "empirical-sandwich"), lambda: "got %r immediate %r all %r" % (g, imm, allp_))
    nested = any(mem[a] < mem[b] or mem[b] < mem[a] for a, b in itertools.combinations(edges, 2))
    ctx.mark((len(comps) >= 2 or nested) and n >= 4)


# --------------------------------------------------------------------------------------------
# one network beyond the small scope: a hyperedge of 14 nodes (66+ triangles at a node of the projection)


def _large(tier, seed, run):
    big = list(range(14))
    spec = {"cls": "H", "kind": "int", "nodes": [], "edges": [[None, big, {}], [None, big[:13] + [14], {}], [None, [0, 15], {}], [None, [15, 16, 17], {}]], "net": {}}
    dspec = {"cls": "DH", "kind": "int", "nodes": [], "edges": [[None, big[:7], big[7:], {}], [None, [0], [14], {}]], "net": {}}
    run({"spec": spec, "dspec": dspec})
    return {"large_network_cases": 1, "large_network_note": "two overlapping hyperedges of 14 nodes on 18 nodes"}


EXTRA = [_large]
