"""C16 - generators deliver the structure their parameters promise (bounded grids x seeds; exhaustive index decodings)."""
import copy
import collections
import itertools
import math
from math import comb

import networkx as nx
import numpy as np
from hypothesis import strategies as st

import xgi
from xgi.exception import XGIError
import xgi.generators.uniform as _uni

_index_to_edge_comb = getattr(_uni, "_index_to_edge_comb", None)
_index_to_edge_prod = getattr(_uni, "_index_to_edge_prod", None)
_index_to_edge_partition = getattr(_uni, "_index_to_edge_partition", None)

PID = "C16"
RULE = (
    "case = (generator, parameter tuple from a bounded grid: n <= 8, sizes/orders <= 4, probabilities from {0, 0.05, 0.3, "
    "0.7, 1}, list / numpy / scalar argument forms, degree/size sequences with equal and unequal sums, block sizes incl. 0, graphs for flag complexes from gnp and from drawn edge lists in drawn order; drawn "
    "seed). Oracle per generator: exact node set; every edge a set of existing nodes of an allowed size (exactly m for "
    "uniform models); no repeated edges where forbidden; p=0 -> no edge of that order, p=1 -> all C(n, d+1) without error; "
    "complete-hypergraph counts; configuration-type models never exceed prescribed degrees; Chung-Lu/DCSBM edges within "
    "prescribed IDs; generated complexes downward closed without duplicates; flag complexes = exactly the cliques up to "
    "max_order. Exhaustive part: the three index-to-edge decodings are compared with itertools for all n <= 7, m <= n and "
    "Flag complexes are generated again from the same Graph object after one edge was toggled; with multi-edges p=1 must give every tuple of distinct nodes; every order with probability 1 must hold all its cliques. "
    "all block-size triples <= 4. non-trivial = the generated network has >= 1 edge and the parameter tuple contains a "
    "boundary value (probability 0 or 1, n < m, an empty block)"
)
BUDGET = {"quick": 6000, "thorough": 150000}
ASSUMPTIONS = [
    "admissible parameters are taken from the docstrings: sunflower needs m > c (m == c does not terminate and is not drawn), uniform_erdos_renyi(p_type='degree') may refuse with XGIError, uniform_HPPM documents n > 0",
    "documented refusals (XGIError) for inadmissible combinations count as held",
]

P = st.sampled_from([0, 0.05, 0.3, 0.7, 1])
SEED = st.integers(0, 10**6)


def _p(**kw):
    return st.fixed_dictionaries(kw)


GENS = {
    "fast_random_hypergraph": _p(n=st.integers(0, 8), ps=st.lists(P, min_size=1, max_size=3), use_order=st.booleans(), order=st.permutations([1, 2, 3, 4]), argform=st.sampled_from(["list", "list", "numpy", "scalar"])),
    "random_hypergraph": _p(n=st.integers(0, 8), ps=st.lists(P, min_size=1, max_size=3), use_order=st.booleans(), order=st.permutations([1, 2, 3, 4]), argform=st.sampled_from(["list", "list", "numpy", "scalar"])),
    "uniform_erdos_renyi_hypergraph": _p(n=st.integers(0, 8), m=st.integers(1, 4), p=P, multiedges=st.booleans()),
    "uniform_erdos_renyi_hypergraph-degree": _p(n=st.integers(1, 8), m=st.integers(1, 4), k=st.sampled_from([0, 0.5, 1, 1.5])),
    "uniform_HSBM": _p(m=st.integers(2, 3), sizes=st.lists(st.integers(0, 3), min_size=1, max_size=3), probs=st.lists(st.sampled_from([0, 0.3, 1]), min_size=27, max_size=27)),
    "uniform_HPPM": _p(n=st.integers(1, 8), m=st.integers(2, 3), k=st.sampled_from([0, 1, 2, 4]), epsilon=st.sampled_from([0, 0.5, 1]), rho=st.sampled_from([0, 0.3, 0.5, 1])),
    "uniform_hypergraph_configuration_model": _p(m=st.integers(2, 3), degs=st.lists(st.integers(0, 3), min_size=3, max_size=7), strlabels=st.booleans()),
    "chung_lu_hypergraph": _p(k1=st.lists(st.integers(0, 4), min_size=1, max_size=6), k2=st.lists(st.integers(0, 4), min_size=1, max_size=6)),
    "dcsbm_hypergraph": _p(k1=st.lists(st.integers(0, 4), min_size=1, max_size=6), k2=st.lists(st.integers(0, 4), min_size=1, max_size=6), g=st.lists(st.integers(0, 1), min_size=6, max_size=6), om=st.sampled_from([[1, 1, 1, 1], [3, 0, 0, 3], [2, 1, 1, 2], [0, 2, 2, 0]])),
    "complete_hypergraph-order": _p(N=st.integers(0, 7), order=st.integers(0, 4)),
    "complete_hypergraph-max_order": _p(N=st.integers(0, 7), max_order=st.integers(1, 4), include_singletons=st.booleans()),
    "ring_lattice": _p(n=st.integers(3, 10), d=st.integers(2, 4), k=st.sampled_from([0, 2, 4]), l=st.integers(0, 2)),
    "watts_strogatz_hypergraph": _p(n=st.integers(3, 10), d=st.integers(2, 4), k=st.sampled_from([0, 2, 4]), l=st.integers(0, 2), p=st.sampled_from([0, 0.5, 1])),
    "star_clique": _p(n_star=st.integers(1, 4), n_clique=st.integers(1, 5), dm=st.integers(0, 4)),
    "sunflower": _p(l=st.integers(0, 4), c=st.integers(0, 3), extra=st.integers(1, 3)),
    "trivial_hypergraph": _p(n=st.integers(0, 6)),
    "random_simplicial_complex": _p(N=st.integers(0, 7), ps=st.lists(st.sampled_from([0, 0.3, 0.7, 1]), min_size=1, max_size=3)),
    "flag_complex": _p(gn=st.integers(1, 7), gp=st.sampled_from([0, 0.3, 0.6, 1, 1]), gedges=st.one_of(st.none(), st.lists(st.tuples(st.integers(0, 6), st.integers(0, 6)).map(list), max_size=14)), max_order=st.sampled_from([1, 2, 3, 3]), ps=st.one_of(st.none(), st.lists(st.sampled_from([0, 0, 0.5, 1, 1]), min_size=3, max_size=3), st.lists(st.sampled_from([0, 0, 0.5, 1, 1]), min_size=3, max_size=3),
                                     st.just([0, 1, 1]), st.just([1, 0, 1]))),
    "flag_complex_d2": _p(gn=st.integers(1, 7), gp=st.sampled_from([0, 0.3, 0.6, 1]), gedges=st.one_of(st.none(), st.lists(st.tuples(st.integers(0, 6), st.integers(0, 6)).map(list), max_size=14)), p2=st.sampled_from([None, 0, 0.5, 1])),
    "random_flag_complex": _p(N=st.integers(1, 7), p=st.sampled_from([0, 0.5, 1]), max_order=st.integers(1, 3)),
    "random_flag_complex_d2": _p(N=st.integers(1, 7), p=st.sampled_from([0, 0.5, 1])),
}
NAMES = sorted(GENS) + ["flag_complex", "flag_complex"]  # the generator with the most interacting options is drawn three times as often


@st.composite
def cases(draw, tier):
    g = draw(st.sampled_from(NAMES))
    return {"gen": g, "params": draw(GENS[g]), "seed": draw(SEED)}


def strategy(tier):
    return cases(tier)


class Chk:
    def __init__(self, ctx, name, params):
        self.ctx, self.name, self.params = ctx, name, params

    def __call__(self, cond, what, detail=""):
        return self.ctx.check(cond, ("generator", self.name, what), lambda: "params %r: %s" % (self.params, detail() if callable(detail) else detail))


def basic(C, H, nodes, sizes=None, nodup=False, maxsize=None):
    nodes = list(nodes)
    C(set(H.nodes) == set(nodes) and H.num_nodes == len(set(nodes)), "node-set", lambda: "%r vs %r" % (sorted(H.nodes, key=repr)[:10], sorted(nodes, key=repr)[:10]))
    ms = H.edges.members()
    ns = set(H.nodes)
    C(all(set(m) <= ns for m in ms), "edge-outside-node-set")
    if sizes is not None:
        C(all(len(m) in sizes for m in ms), "edge-size", lambda: "sizes %r allowed %r" % (sorted({len(m) for m in ms}), sorted(sizes)))
    if maxsize is not None:
        C(all(1 <= len(m) <= maxsize for m in ms), "edge-size-bound", lambda: "sizes %r max %d" % (sorted({len(m) for m in ms}), maxsize))
    if nodup:
        C(len(set(map(frozenset, ms))) == len(ms), "repeated-edges", lambda: "%d edges, %d distinct" % (len(ms), len(set(map(frozenset, ms)))))
    return ms


def closed(C, S):
    ms = {frozenset(m) for m in S.edges.members()}
    C(len(ms) == S.num_edges, "complex-has-duplicates")
    C(all(frozenset(c) in ms for m in ms for k in range(2, len(m)) for c in itertools.combinations(m, k)), "complex-not-downward-closed")



def _flag_check(C, g, p, G, seed):
    if g == "flag_complex":
        mo = p["max_order"]
        ps = p["ps"][: mo - 1] if p["ps"] is not None and mo > 1 else None
        H = xgi.flag_complex(G, max_order=mo, ps=ps, seed=seed)
        hi = mo + 1
        exact = ps is None or all(x == 1 for x in ps)
    else:
        H = xgi.flag_complex_d2(G, p2=p["p2"], seed=seed)
        hi = 3
        exact = p["p2"] in (None, 1)
    basic(C, H, G.nodes, maxsize=hi)
    closed(C, H)
    cl = {frozenset(c) for c in nx.enumerate_all_cliques(G) if 2 <= len(c) <= hi}
    got = {frozenset(m) for m in H.edges.members()}
    if exact:
        C(got == cl, "not-exactly-the-cliques", lambda: "extra %r missing %r" % (sorted(map(sorted, got - cl))[:3], sorted(map(sorted, cl - got))[:3]))
    else:
        C(got <= cl and {c for c in cl if len(c) == 2} <= got, "not-a-subcomplex-of-the-clique-complex")
        if g != "flag_complex" and p["p2"] == 0:
            C(all(len(m) <= 2 for m in got), "p=0-has-triangles", lambda: "%d triangles filled" % sum(1 for m in got if len(m) == 3))
        if g == "flag_complex" and ps is not None:
            # each order is promoted on its own: probability 1 at order d fills every (d+1)-clique, whatever happened at lower orders
            for i, pr in enumerate(ps):
                if pr == 1:
                    want = {c for c in cl if len(c) == i + 3}
                    C(want <= got, "p=1-order-misses-cliques", lambda: "order %d: missing %r" % (i + 2, sorted(map(sorted, want - got))[:3]))
    return H


def run_case(case, ctx):
    g, p, seed = case["gen"], case["params"], case["seed"]
    C = Chk(ctx, g, p)
    ctx.event("gen:" + g)
    boundary = False
    H = None
    if g in ("fast_random_hypergraph", "random_hypergraph"):
        f = getattr(xgi, g)
        n, ps = p["n"], p["ps"]
        order = list(p["order"])[: len(ps)] if p["use_order"] else None
        if p.get("argform") == "scalar":  # documented form: one order as an int with one probability as a float
            order, ps = [list(p["order"])[0]], [float(ps[0])]
            H = f(n, ps[0], order=order[0], seed=seed)
        elif p.get("argform") == "numpy":
            H = f(n, np.array(ps, float), order=None if order is None else np.array(order), seed=seed)
        else:
            H = f(n, ps, order=order, seed=seed)
        orders = order or list(range(1, len(ps) + 1))
        basic(C, H, range(n), sizes={o + 1 for o in orders}, nodup=True)
        for d, pr in zip(orders, ps):
            c = len(H.edges.filterby("order", d))
            if pr == 0:
                C(c == 0, "p=0-has-edges", "order %d count %d" % (d, c))
            if pr == 1:
                C(c == comb(n, d + 1), "p=1-not-all-edges", "order %d count %d expected %d" % (d, c, comb(n, d + 1)))
        boundary = any(x in (0, 1) for x in ps)
    elif g == "uniform_erdos_renyi_hypergraph":
        n, m, pr, me = p["n"], p["m"], p["p"], p["multiedges"]
        H = xgi.uniform_erdos_renyi_hypergraph(n, m, pr, multiedges=me, seed=seed)
        basic(C, H, range(n), sizes={m}, nodup=not me)
        if pr == 0:
            C(H.num_edges == 0, "p=0-has-edges")
        if pr == 1 and not me:
            C(H.num_edges == comb(n, m), "p=1-not-all-edges", "%d vs %d" % (H.num_edges, comb(n, m)))
        if pr == 1 and me:
            # with multi-edges every m-tuple of distinct nodes is an edge of its own: n! / (n - m)! of them, each node set m! times
            want = math.perm(n, m) if n >= m else 0
            cnt = collections.Counter(frozenset(x) for x in H.edges.members())
            C(H.num_edges == want and (not cnt or set(cnt.values()) == {math.factorial(m)}) and len(cnt) == comb(n, m),
              "p=1-multiedges-not-all-tuples", lambda: "%d edges vs %d; %d distinct sets vs %d" % (H.num_edges, want, len(cnt), comb(n, m)))
        boundary = pr in (0, 1) or n < m
    elif g == "uniform_erdos_renyi_hypergraph-degree":
        try:
            H = xgi.uniform_erdos_renyi_hypergraph(p["n"], p["m"], p["k"], p_type="degree", seed=seed)
            basic(C, H, range(p["n"]), sizes={p["m"]}, nodup=True)
        except XGIError:
            ctx.event("documented-refusal")
        boundary = p["k"] == 0 or p["n"] < p["m"]
    elif g == "uniform_HSBM":
        m, sizes = p["m"], p["sizes"]
        k = len(sizes)
        n = sum(sizes)
        Pm = np.array(p["probs"][: k ** m], float).reshape((k,) * m)
        H = xgi.uniform_HSBM(n, m, Pm, sizes, seed=seed)
        ms = basic(C, H, range(n), sizes={m})
        # block structure: p == 0 blocks have no edge, p == 1 blocks have every admissible node set
        cum = np.cumsum([0] + sizes)
        part = [list(range(cum[i], cum[i + 1])) for i in range(k)]
        blk = {v: i for i, b in enumerate(part) for v in b}
        have = {frozenset(x) for x in ms}
        for block in itertools.product(range(k), repeat=m):
            if Pm[block] == 1:
                for tup in itertools.product(*(part[i] for i in block)):
                    if len(set(tup)) == m:
                        if not C(frozenset(tup) in have, "p=1-block-misses-an-edge", lambda: "block %r edge %r" % (block, tup)):
                            break
        zero_sig = {tuple(sorted(b)) for b in itertools.product(range(k), repeat=m) if all(Pm[perm] == 0 for perm in set(itertools.permutations(b)))}
        C(not any(tuple(sorted(blk[v] for v in e)) in zero_sig for e in have), "p=0-block-has-an-edge")
        boundary = 0 in sizes or bool((Pm == 1).any()) or bool((Pm == 0).any())
    elif g == "uniform_HPPM":
        try:
            H = xgi.uniform_HPPM(p["n"], p["m"], p["k"], p["epsilon"], rho=p["rho"], seed=seed)
            basic(C, H, range(p["n"]), sizes={p["m"]})
        except XGIError:
            ctx.event("documented-refusal")
        boundary = p["rho"] in (0, 1) or p["epsilon"] in (0, 1) or p["k"] == 0
    elif g == "uniform_hypergraph_configuration_model":
        m, degs = p["m"], p["degs"]
        k = {("v%d" % i if p["strlabels"] else i): d for i, d in enumerate(degs)}
        k0 = dict(k)
        H = xgi.uniform_hypergraph_configuration_model(k, m, seed=seed)  # k may be repaired (+1) in place, as documented
        basic(C, H, k0.keys(), sizes={m})
        deg = H.nodes.degree.asdict()
        C(all(deg[v] <= k[v] for v in k0), "degree-exceeds-prescribed", lambda: "degrees %r prescribed %r" % (deg, k))
        C(all(k[v] - k0[v] in (0, 1) for v in k0) and sum(k[v] - k0[v] for v in k0) < m, "repair-of-degree-sum", lambda: "%r -> %r" % (k0, k))
        boundary = sum(degs) % m != 0 or 0 in degs
    elif g in ("chung_lu_hypergraph", "dcsbm_hypergraph"):
        k1 = {i: d for i, d in enumerate(p["k1"])}
        k2 = {"e%d" % j: d for j, d in enumerate(p["k2"])}
        if sum(k1.values()) == 0 or sum(k2.values()) == 0:
            ctx.event("degenerate-degree-sequence")
            return
        if g == "chung_lu_hypergraph":
            H = xgi.chung_lu_hypergraph(copy.deepcopy(k1), copy.deepcopy(k2), seed=seed)
        else:
            g1 = {i: p["g"][i % 6] for i in k1}
            g2 = {e: p["g"][(j + 1) % 6] for j, e in enumerate(k2)}
            if len(set(g1.values())) < 2 or len(set(g2.values())) < 2:
                g1[0] = 0
                g1[max(k1)] = 1 if len(k1) > 1 else 0
            om = np.array(p["om"], float).reshape(2, 2)
            try:
                H = xgi.dcsbm_hypergraph(copy.deepcopy(k1), copy.deepcopy(k2), g1, g2, om, seed=seed)
            except XGIError:
                ctx.event("documented-refusal")
                return
        basic(C, H, k1.keys())
        C(set(H.edges) <= set(k2), "edge-ids-outside-prescribed", lambda: "%r" % (list(H.edges),))
        boundary = sum(k1.values()) != sum(k2.values()) or 0 in p["k1"]
    elif g == "complete_hypergraph-order":
        N, o = p["N"], p["order"]
        H = xgi.complete_hypergraph(N, order=o)
        basic(C, H, range(N), sizes={o + 1}, nodup=True)
        C(H.num_edges == comb(N, o + 1), "count", "%d vs %d" % (H.num_edges, comb(N, o + 1)))
        boundary = N <= o
    elif g == "complete_hypergraph-max_order":
        N, mo, s = p["N"], p["max_order"], p["include_singletons"]
        H = xgi.complete_hypergraph(N, max_order=mo, include_singletons=s)
        basic(C, H, range(N), nodup=True, sizes=set(range(1 if s else 2, mo + 2)))
        want = sum(comb(N, k) for k in range(1 if s else 2, mo + 2))
        C(H.num_edges == want, "count", "%d vs %d" % (H.num_edges, want))
        boundary = N <= mo
    elif g in ("ring_lattice", "watts_strogatz_hypergraph"):
        n, d, k, l = p["n"], p["d"], p["k"], p["l"]
        if g == "ring_lattice":
            H = xgi.ring_lattice(n, d, k, l)
            C(H.num_edges == n * (k // 2), "count", "%d vs %d" % (H.num_edges, n * (k // 2)))
            uniform = n > k // 2 + l + d - 2
        else:
            H = xgi.watts_strogatz_hypergraph(n, d, k, l, p["p"], seed=seed)
            uniform = p["p"] == 0 and n > k // 2 + l + d - 2
        basic(C, H, range(n), maxsize=d)
        if uniform:
            C(all(len(m) == d for m in H.edges.members()), "not-uniform-where-promised")
        boundary = k == 0 or p.get("p") in (0, 1)
    elif g == "star_clique":
        ns, nc, dm = p["n_star"], p["n_clique"], min(p["dm"], p["n_clique"] - 1)
        H = xgi.star_clique(ns, nc, dm)
        basic(C, H, range(ns + nc))
        boundary = dm == 0
    elif g == "sunflower":
        l, c = p["l"], p["c"]
        m = c + p["extra"]
        H = xgi.sunflower(l, c, m)
        basic(C, H, range(c + (m - c) * l) if l else [], sizes={m}, nodup=True)
        C(H.num_edges == l, "count", "%d petals vs %d" % (H.num_edges, l))
        if l >= 2:
            ms = [set(x) for x in H.edges.members()]
            core = set.intersection(*ms)
            C(len(core) == c and all(a & b == core for a, b in itertools.combinations(ms, 2)), "petals-share-exactly-the-core")
        boundary = l == 0 or c == 0
    elif g == "trivial_hypergraph":
        H = xgi.trivial_hypergraph(p["n"])
        basic(C, H, range(p["n"]))
        C(H.num_edges == 0, "has-edges")
        boundary = p["n"] == 0
    elif g == "random_simplicial_complex":
        H = xgi.random_simplicial_complex(p["N"], p["ps"], seed=seed)
        basic(C, H, range(p["N"]), maxsize=len(p["ps"]) + 1)
        closed(C, H)
        boundary = any(x in (0, 1) for x in p["ps"])
    elif g in ("flag_complex", "flag_complex_d2"):
        if p.get("gedges") is None:
            G = nx.gnp_random_graph(p["gn"], p["gp"], seed=seed)
        else:  # edges in the drawn order: node order and adjacency order are then arbitrary
            G = nx.Graph()
            G.add_nodes_from(range(p["gn"] - 1, -1, -1) if seed % 2 else range(p["gn"]))
            G.add_edges_from((a % p["gn"], b % p["gn"]) for a, b in p["gedges"] if a % p["gn"] != b % p["gn"])
        _flag_check(C, g, p, G, seed)
        # the same Graph object after an edit (one edge toggled): nothing remembered about the earlier graph may be used
        es = list(G.edges)
        non = [(a, b) for a in G.nodes for b in G.nodes if repr(a) < repr(b) and not G.has_edge(a, b)]
        if seed % 3 == 1 and es and non:  # one edge moved: node and edge counts stay the same
            G.remove_edge(*es[0])
            G.add_edge(*non[0])
        elif (seed % 3 == 0 and es) or not non:
            if es:
                G.remove_edge(*es[0])
        else:
            G.add_edge(*non[0])
        H = _flag_check(C, g, p, G, seed)
        boundary = p["gp"] in (0, 1)
    elif g == "random_flag_complex":
        H = xgi.random_flag_complex(p["N"], p["p"], max_order=p["max_order"], seed=seed)
        basic(C, H, range(p["N"]), maxsize=p["max_order"] + 1)
        closed(C, H)
        if p["p"] == 1:
            C(H.num_edges == sum(comb(p["N"], k) for k in range(2, p["max_order"] + 2)), "p=1-not-all-cliques")
        if p["p"] == 0:
            C(H.num_edges == 0, "p=0-has-edges")
        boundary = p["p"] in (0, 1)
    elif g == "random_flag_complex_d2":
        H = xgi.random_flag_complex_d2(p["N"], p["p"], seed=seed)
        basic(C, H, range(p["N"]), maxsize=3)
        closed(C, H)
        boundary = p["p"] in (0, 1)
    else:
        raise ValueError(g)
    ctx.mark(H is not None and H.num_edges >= 1 and boundary)


def _decodings(tier, seed, run):
    """exhaustive: index -> edge decodings are the itertools orders (bijections)"""
    bad = []
    count = 0
    if None in (_index_to_edge_comb, _index_to_edge_prod, _index_to_edge_partition):
        # internal helpers renamed by a refactoring: nothing to enumerate (reported, never a failure)
        return {"index_decodings_checked": 0, "index_decodings_exhaustive": False, "index_decodings_note": "helpers not found under their names"}
    for n in range(1, 8):
        for m in range(1, n + 1):
            got = [tuple(_index_to_edge_comb(i, n, m)) for i in range(comb(n, m))]
            count += len(got)
            if got != list(itertools.combinations(range(n), m)):
                bad.append(("comb", n, m))
            if n ** m <= 5000:
                got = [tuple(_index_to_edge_prod(i, n, m)) for i in range(n ** m)]
                count += len(got)
                if got != list(itertools.product(range(n), repeat=m)):
                    bad.append(("prod", n, m))
    for ps_ in itertools.product(range(1, 5), repeat=3):
        tot = ps_[0] * ps_[1] * ps_[2]
        got = [tuple(_index_to_edge_partition(i, list(ps_), 3)) for i in range(tot)]
        count += tot
        if got != list(itertools.product(*[range(x) for x in ps_])):
            bad.append(("partition", ps_))
    for b in bad:
        run({"gen": "__decoding__", "params": {"which": list(map(str, b))}, "seed": 0})
    return {"index_decodings_checked": count, "index_decodings_exhaustive": True, "exhaustive": True, "index_decoding_mismatches": len(bad)}


_orig_run_case = run_case


def run_case(case, ctx):  # noqa: F811
    if case["gen"] == "__decoding__":
        ctx.fail(("index-decoding", case["params"]["which"][0], "not-the-itertools-order"), repr(case["params"]["which"]))
        return
    _orig_run_case(case, ctx)


EXTRA = [_decodings]
