"""C17 - a seed fully determines every stochastic result (same call twice, RNG perturbations in between)."""
import copy
import inspect
import random

import networkx as nx
import numpy as np
from hypothesis import strategies as st

import xgi

from .. import nets

PID = "C17"
RULE = (
    "case = (seeded public function found by introspection of the package namespace - 'seed' in its signature -, "
    "argument tuple from a bounded grid that draws every documented parameter incl. the boundary values 0 / 1 / None / default, seed, schedule of 0-8 perturbations executed between the two calls: draws from "
    "random / numpy.random, re-seeding either global generator, calling the same function with another seed, calling "
    "another seeded function, calling the same function with other arguments / an extra networkx option); the seed is passed as a Python int or, where the function accepts it, as a numpy integer. Oracle: both calls return identical observable output - full ordered network snapshot "
    "incl. IDs for generators, exact position arrays for layouts, identical cluster dict for spectral_clustering. "
    "non-trivial = the output is not empty/constant (>= 1 edge, >= 2 positions, >= 2 clusters) and the schedule has >= 2 "
    "perturbations; a seeded function without an argument recipe is listed as uncovered"
)
BUDGET = {"quick": 4000, "thorough": 90000}
ASSUMPTIONS = [
    "one interpreter process, no threads (the library has none); the interleavings are sampled schedules of RNG consumers",
    "arguments are deep-copied per call (uniform_hypergraph_configuration_model repairs its degree dict in place)",
]
SHRINK_KEYS = ("schedule",)


def seeded_functions():
    out = {}
    for n in sorted(dir(xgi)):
        f = getattr(xgi, n)
        if n.startswith("_") or inspect.isclass(f) or inspect.ismodule(f) or not callable(f):
            continue
        try:
            if "seed" in inspect.signature(f).parameters:
                out[n] = f
        except (TypeError, ValueError):
            continue
    return out


SEEDED = seeded_functions()
P = st.sampled_from([0.05, 0.3, 0.7])
PB = st.sampled_from([0.0, 0.05, 0.3, 0.7, 1.0])  # with the boundary values
TINY = st.sampled_from([2e-9, 5e-9, 9e-9])  # with 1500-3000 nodes and 3-node edges: a few to a few dozen edges
Hspec = nets.net_spec(cls="H", kind="int", max_edges=7, max_size=4, min_edges=2, with_attrs=False, allow_empty=False, ids="auto")
Hspec_any = st.sampled_from(["int", "str", "gap"]).flatmap(
    lambda kd: nets.net_spec(cls="H", kind=kd, max_edges=7, max_size=4, min_edges=2, with_attrs=False, allow_empty=False, ids="auto"))
KL = st.sampled_from([None, 0.5, 2.0])  # spring constant of the layouts


def _fd(**kw):
    return st.fixed_dictionaries(kw)


# every documented parameter of every seeded function is drawn, boundary values (0, 1, None, defaults) included
PARAMS = {
    # one draw in six: the large sparse regime (wiring probability below 1e-8, thousands of nodes, a handful of edges) - the
    # skip sampler's numerically delicate end, where an implementation is most tempted to switch to another sampler
    "fast_random_hypergraph": st.one_of(*[_fd(n=st.integers(3, 8), ps=st.lists(PB, min_size=1, max_size=3), order=st.sampled_from([None, None, 1, 2, 3]))] * 5,
                                        _fd(n=st.integers(1500, 3000), ps=st.lists(TINY, min_size=1, max_size=1), order=st.just(2))),
    "random_hypergraph": _fd(n=st.integers(3, 8), ps=st.lists(PB, min_size=1, max_size=3), order=st.sampled_from([None, None, 1, 2, 3])),
    "chung_lu_hypergraph": _fd(k=st.lists(st.integers(1, 3), min_size=3, max_size=6)),
    "dcsbm_hypergraph": _fd(k=st.lists(st.integers(1, 3), min_size=4, max_size=6), mix=st.sampled_from([0.0, 0.5, 1.0])),
    "watts_strogatz_hypergraph": _fd(n=st.integers(6, 10), d=st.integers(2, 3), l=st.integers(1, 2), p=st.sampled_from([0.0, 0.3, 0.7, 1.0])),
    "uniform_hypergraph_configuration_model": _fd(degs=st.lists(st.integers(1, 3), min_size=4, max_size=7), m=st.integers(2, 3)),
    "uniform_HSBM": _fd(m=st.integers(2, 3), p_in=PB, p_out=PB, sizes=st.sampled_from([[3, 3], [2, 4], [1, 5], [2, 2, 2]])),
    "uniform_HPPM": _fd(n=st.sampled_from([6, 8]), m=st.integers(2, 3), k=st.sampled_from([1, 2, 4]), epsilon=st.sampled_from([0, 0.0, 0.3, 0.8, 1, 1.0]),
                        rho=st.sampled_from([None, 0.5, 0.25, 0.75])),
    "uniform_erdos_renyi_hypergraph": st.one_of(*[_fd(n=st.integers(4, 8), m=st.integers(2, 3), p=PB, multiedges=st.booleans(), p_type=st.sampled_from(["prob", "prob", "degree"]))] * 5,
                                                _fd(n=st.integers(1500, 3000), m=st.just(3), p=TINY, multiedges=st.booleans(), p_type=st.just("prob"))),
    "random_simplicial_complex": _fd(N=st.integers(4, 7), ps=st.lists(PB, min_size=1, max_size=2)),
    "flag_complex": _fd(gn=st.integers(4, 8), gs=st.integers(0, 50), ps=st.one_of(st.none(), st.lists(st.sampled_from([0.0, 0.3, 0.7, 1.0]), min_size=1, max_size=2)),
                        max_order=st.integers(1, 3)),
    "flag_complex_d2": _fd(gn=st.integers(4, 8), gs=st.integers(0, 50), p2=st.sampled_from([None, 0.0, 0.3, 0.7, 1.0])),
    "random_flag_complex": _fd(N=st.integers(4, 8), p=st.sampled_from([0.4, 0.7, 1.0]), max_order=st.integers(1, 3)),
    "random_flag_complex_d2": _fd(N=st.integers(4, 8), p=st.sampled_from([0.4, 0.7, 1.0])),
    "shuffle_hyperedges": _fd(spec=Hspec, p=st.sampled_from([0.5, 1.0])),
    "random_layout": _fd(spec=Hspec_any, center=st.sampled_from([None, [1.0, 2.0]])),
    "pairwise_spring_layout": _fd(spec=Hspec_any, k=KL),
    "barycenter_spring_layout": _fd(spec=Hspec_any, phantom=st.booleans(), k=KL),
    "weighted_barycenter_spring_layout": _fd(spec=Hspec_any, phantom=st.booleans(), k=KL),
    "bipartite_spring_layout": _fd(spec=Hspec_any, k=KL),
    "spectral_clustering": _fd(spec=nets.net_spec(cls="H", kind="int", max_edges=8, max_size=4, min_edges=2, with_attrs=False, allow_empty=False, ids="auto"), k=st.integers(2, 4),
                               max_iter=st.sampled_from([None, 1, 3])),
}


def call_args(name, p):
    """(args, kwargs) for xgi.<name>; None when this parameter tuple is inadmissible"""
    if name in ("fast_random_hypergraph", "random_hypergraph"):
        if p.get("order") is not None:
            return (p["n"], p["ps"][0]), {"order": p["order"]}
        return (p["n"], p["ps"]), {}
    if name == "chung_lu_hypergraph":
        k = {i: d for i, d in enumerate(p["k"])}
        return (k, dict(k)), {}
    if name == "dcsbm_hypergraph":
        k = {i: d for i, d in enumerate(p["k"])}
        g = {i: i % 2 for i in k}
        tot = sum(k.values())
        off = p.get("mix", 0.5) * tot / 3
        om = np.array([[tot / 2 - off, off], [off, tot / 2 - off]], dtype=float)  # a float array: handed to both calls as the same object
        return (k, dict(k), g, dict(g), om), {}
    if name == "watts_strogatz_hypergraph":
        return (p["n"], p["d"], 2, p["l"], p["p"]), {}
    if name == "uniform_hypergraph_configuration_model":
        return ({i: d for i, d in enumerate(p["degs"])}, p["m"]), {}
    if name == "uniform_HSBM":
        m = p["m"]
        sizes = p.get("sizes", [3, 3])
        b = len(sizes)
        Pm = np.full((b,) * m, p["p_out"])
        for i in range(b):
            Pm[(i,) * m] = p["p_in"]
        return (sum(sizes), m, Pm, sizes), {}
    if name == "uniform_HPPM":
        kw = {} if p.get("rho") is None else {"rho": p["rho"]}
        return (p["n"], p["m"], p["k"], p["epsilon"]), kw
    if name == "uniform_erdos_renyi_hypergraph":
        return (p["n"], p["m"], p["p"]), {"multiedges": p["multiedges"], "p_type": p.get("p_type", "prob")}
    if name == "random_simplicial_complex":
        return (p["N"], p["ps"]), {}
    if name == "flag_complex":
        kw = {"ps": p["ps"]}
        if p.get("max_order") is not None:
            kw["max_order"] = p["max_order"]
        return (nx.gnp_random_graph(p["gn"], 0.6, seed=p["gs"]),), kw
    if name == "flag_complex_d2":
        return (nx.gnp_random_graph(p["gn"], 0.6, seed=p["gs"]),), {"p2": p["p2"]}
    if name == "random_flag_complex":
        return (p["N"], p["p"]), {"max_order": p["max_order"]}
    if name == "random_flag_complex_d2":
        return (p["N"], p["p"]), {}
    H = nets.build(p["spec"])
    if name == "shuffle_hyperedges":
        orders = sorted(set(H.edges.order.aslist()))
        if not orders or orders[-1] < 1:
            return None
        return (H, orders[-1], p["p"]), {}
    if name == "random_layout":
        return (H,), ({} if p.get("center") is None else {"center": p["center"]})
    lk = {} if p.get("k") is None else {"k": p["k"]}
    if name in ("bipartite_spring_layout", "pairwise_spring_layout"):
        return (H,), lk
    if name in ("barycenter_spring_layout", "weighted_barycenter_spring_layout"):
        return (H,), dict(lk, return_phantom_graph=p["phantom"])
    if name == "spectral_clustering":
        H.remove_nodes_from(list(H.nodes.isolates()))  # construction rather than rejection: the function needs non-zero degrees
        if H.num_nodes < 3:
            return None
        kw = {"k": min(p["k"], H.num_nodes - 1)}
        if p.get("max_iter") is not None:
            kw["max_iter"] = p["max_iter"]
        return (H,), kw
    return None


@st.composite
def cases(draw, tier):
    # spectral_clustering has data-dependent branches (degenerate spectra, empty k-means clusters): one draw in five
    name = "spectral_clustering" if ("spectral_clustering" in SEEDED and draw(st.integers(0, 4)) == 0) else draw(st.sampled_from(sorted(SEEDED)))
    params = draw(PARAMS[name]) if name in PARAMS else None
    others = sorted(n for n in PARAMS if n in SEEDED and "layout" not in n and n != "spectral_clustering")
    pert = st.one_of(
        st.tuples(st.just("py_random"), st.integers(1, 5)).map(list),
        st.tuples(st.just("np_random"), st.integers(1, 5)).map(list),
        st.tuples(st.just("py_seed"), st.integers(0, 99)).map(list),
        st.tuples(st.just("np_seed"), st.integers(0, 99)).map(list),
        st.tuples(st.just("same_fn_other_seed"), st.integers(0, 10**6)).map(list),
        st.tuples(st.just("other_fn"), st.sampled_from(others), st.integers(0, 10**6)).map(list),
        # the same function with other arguments (generators: a fixed other parameter tuple; spring layouts: an extra networkx option)
        st.tuples(st.just("same_fn_other_args"), st.integers(0, 10**6)).map(list),
    )
    return {"fn": name, "params": params, "seed": draw(st.integers(0, 10**6)), "schedule": draw(st.lists(pert, max_size=8)),
            "pre": draw(st.lists(st.integers(0, 99), max_size=2)),
            # the seed as a Python int or as a numpy integer (judged only where the function accepts that type at all)
            "seedtype": draw(st.sampled_from(["int", "int", "int", "np.int64", "np.uint32"])), "positional": draw(st.integers(0, 3)) == 0}


def strategy(tier):
    return cases(tier)


def out_snap(o):
    if isinstance(o, (xgi.Hypergraph, xgi.DiHypergraph)):
        s = nets.snap_obs(o)
        return ("net", type(o).__name__, s[0], repr(s[1]), s[2], repr(sorted((repr(e), sorted(map(repr, m))) for e, m in s[3].items())), repr(s[4]), repr(s[5]))
    if isinstance(o, dict):
        return ("dict", [(repr(k), np.asarray(v).tolist() if not isinstance(v, (int, str)) else v) for k, v in o.items()])
    if isinstance(o, tuple):
        return tuple(out_snap(x) for x in o)
    if isinstance(o, (nx.Graph,)):
        return ("graph", sorted(map(repr, o.nodes)), sorted(map(repr, o.edges)))
    if isinstance(o, np.ndarray):
        return ("arr", o.tolist())
    return ("val", repr(o))


def nontrivial_output(o):
    if isinstance(o, tuple):
        o = o[0]
    if isinstance(o, (xgi.Hypergraph, xgi.DiHypergraph)):
        return o.num_edges >= 1
    if isinstance(o, dict):
        vals = list(o.values())
        if vals and isinstance(vals[0], (int, np.integer)):
            return len(set(int(v) for v in vals)) >= 2
        return len(vals) >= 2
    return False


OTHER_DEFAULTS = {
    "fast_random_hypergraph": {"n": 6, "ps": [0.3, 0.3]},
    "random_hypergraph": {"n": 6, "ps": [0.3]},
    "chung_lu_hypergraph": {"k": [2, 2, 2, 2]},
    "dcsbm_hypergraph": {"k": [2, 2, 2, 2]},
    "watts_strogatz_hypergraph": {"n": 8, "d": 3, "l": 1, "p": 0.5},
    "uniform_hypergraph_configuration_model": {"degs": [2, 2, 2, 2, 2, 2], "m": 3},
    "uniform_HSBM": {"m": 2, "p_in": 0.7, "p_out": 0.3},
    "uniform_HPPM": {"n": 8, "m": 2, "k": 2, "epsilon": 0.5},
    "uniform_erdos_renyi_hypergraph": {"n": 7, "m": 3, "p": 0.3, "multiedges": False},
    "random_simplicial_complex": {"N": 6, "ps": [0.4, 0.3]},
    "flag_complex": {"gn": 7, "gs": 3, "ps": [0.5]},
    "flag_complex_d2": {"gn": 7, "gs": 3, "p2": 0.5},
    "random_flag_complex": {"N": 7, "p": 0.5, "max_order": 2},
    "random_flag_complex_d2": {"N": 7, "p": 0.5},
}


# functions without **kwargs whose whole signature can be bound positionally
POSITIONAL_OK = {n for n, f_ in SEEDED.items() if all(p_.kind in (p_.POSITIONAL_OR_KEYWORD, p_.POSITIONAL_ONLY) for p_ in inspect.signature(f_).parameters.values())}


def run_case(case, ctx):
    name = case["fn"]
    f = SEEDED[name]
    if case["params"] is None:
        ctx.event("uncovered:" + name)
        return
    ca = call_args(name, case["params"])
    if ca is None:
        ctx.event("inadmissible-params:" + name)
        return
    args, kw = ca
    seed = case["seed"]
    stype = case.get("seedtype", "int")
    if stype != "int":
        seed = np.int64(seed) if stype == "np.int64" else np.uint32(seed)
        try:
            f(*copy.deepcopy(args), seed=seed, **copy.deepcopy(kw))
        except (TypeError, ValueError):  # random.seed() and networkx refuse numpy integers: this seed type is not offered by the function
            ctx.event("seedtype-refused:" + name)
            return
        ctx.event("seedtype:" + stype)
    # the global generators start from a state that is a function of the case (replayable)
    random.seed(case.get("init", int(seed)) + 17)
    np.random.seed((case.get("init", int(seed)) + 17) % (2**32))
    # "the same arguments": the very same objects are handed to every call (a function that modifies what it is given changes
    # its own later input) - except for the one generator that documents an in-place repair of its degree dict
    if name != "uniform_hypergraph_configuration_model":
        _dc = copy.deepcopy
        copy_ = lambda x: x  # noqa: E731
    else:
        copy_ = copy.deepcopy
    positional = bool(case.get("positional")) and name in POSITIONAL_OK

    def invoke(sd, a=None, k=None):
        a = copy_(args) if a is None else a
        k = copy_(kw) if k is None else k
        if positional:  # every argument, the seed included, in the documented positional order
            b = inspect.signature(f).bind(*a, seed=sd, **k)
            return f(*b.args, **b.kwargs) if not b.kwargs else f(*a, seed=sd, **k)
        return f(*a, seed=sd, **k)

    for s in case["pre"]:  # earlier calls to the same function must not matter either
        invoke(s)
    o1 = invoke(seed)
    s1 = out_snap(o1)
    for op in case["schedule"]:
        if op[0] == "py_random":
            for _ in range(op[1]):
                random.random()
        elif op[0] == "np_random":
            np.random.random(op[1])
        elif op[0] == "py_seed":
            random.seed(op[1])
        elif op[0] == "np_seed":
            np.random.seed(op[1])
        elif op[0] == "same_fn_other_seed":
            invoke(op[1])
        elif op[0] == "same_fn_other_args":
            if name in OTHER_DEFAULTS:
                a2, k2 = call_args(name, OTHER_DEFAULTS[name])
                f(*a2, seed=op[1], **k2)
            elif name.endswith("spring_layout"):
                f(*copy.deepcopy(args), seed=op[1], **dict(copy.deepcopy(kw), iterations=2 + op[1] % 3))
            else:
                f(*copy.deepcopy(args), seed=op[1], **copy.deepcopy(kw))
        elif op[0] == "other_fn" and op[1] in SEEDED and op[1] in OTHER_DEFAULTS:
            a2, k2 = call_args(op[1], OTHER_DEFAULTS[op[1]])
            SEEDED[op[1]](*a2, seed=op[2], **k2)
    o2 = invoke(seed)
    s2 = out_snap(o2)
    ctx.check(s1 == s2, ("seed-determinism", name), lambda: "seed %d schedule %r: first %r second %r" % (seed, case["schedule"], str(s1)[:300], str(s2)[:300]))
    ctx.event("fn:" + name)
    ctx.mark(nontrivial_output(o1) and len(case["schedule"]) >= 2)


def summarise(events):
    covered = sorted(k[3:] for k in events if k.startswith("fn:"))
    return {"seeded_functions_found": sorted(SEEDED), "seeded_functions_exercised": covered,
            "uncovered_seeded_functions": sorted(k[10:] for k in events if k.startswith("uncovered:"))}
