"""C20 - layouts and drawings represent every node and edge faithfully (Agg backend, artists inspected)."""
import collections
import random

import matplotlib

matplotlib.use("Agg")
import matplotlib.pyplot as plt  # noqa: E402
import numpy as np  # noqa: E402
from hypothesis import strategies as st  # noqa: E402

import xgi  # noqa: E402

from .. import nets  # noqa: E402

PID = "C20"
RULE = (
    "case = hypergraph or simplicial complex with >= 1 edge of >= 2 nodes (labels int / negative / gapped / str / multi-char "
    "str / integral floats / mixed int-float / numpy ints, isolated nodes, singleton edges, multi-edges, explicit IDs) + layout options (center, radius, resolution, "
    "equidistant, seed, k, return_phantom_graph) + max_order + a style mode (scalar / list / dict keyed by ID / stat "
    "object) + presentation options that must not move anything (node / hyperedge labels, marker shape, alpha, rescale_sizes, aspect, dyad style, edge line width, hull) + the position dict in node order, reversed, with extra keys, or caller-made (all nodes on a line / on a 3-column grid) + which drawing function (draw, draw_nodes, draw_hyperedges, draw_simplices). Oracle: every layout returns "
    "exactly one finite 2-vector per node (bipartite layout: per node and per edge); edge_positions_from_barycenters = mean "
    "of member positions; drawing with a supplied pos succeeds and node_collection offsets = [pos[n] for n in H.nodes], "
    "dyad segments = the two-node edges (multiset of endpoint pairs), patch polygons = the edges of 3..max_order+1 nodes "
    "(multiset of vertex sets; for a complex: maximal simplices of >= 3 nodes, lines = all two-node simplices). "
    "Markers must be unmasked with finite sizes and line widths (styles incl. per-node values that are all equal); layout centres are given as list, tuple or numpy array. "
    "non-trivial = the network has an isolated node, a singleton edge or string labels, and an edge of >= 3 nodes"
)
BUDGET = {"quick": 1400, "thorough": 30000}
ASSUMPTIONS = [
    "hull drawing (hull=True) is not inspected (convex hulls are not the member positions); figures are closed after every case",
    "per-ID style lists follow the documented order (nodes in H.nodes order); dict-valued styles are keyed by the IDs of the drawn elements",
]

KINDS = {
    "int": [0, 1, 2, 3, 4, 5, 6],
    "neg": [-3, -2, -1, 0, 1, 2, 3],
    "gap": [7, 40, 3, 11, 0, 25, 19],
    "str": ["a", "b", "c", "d", "e", "f", "g"],
    "mstr": ["aa", "b", "node c", "dd", "e5", "ff", "g"],
    "float": [0.0, 1.0, 2.0, 3.0, 4.0, 5.0, 6.0],  # integral floats: equal to ints as dict keys, but not instances of int
    "fmix": [0, 1, 2.0, 3, 4.0, 5.5, 6],
    "npint": [np.int64(i) for i in (0, 1, 2, 3, 4, 5, 6)],
}


@st.composite
def cases(draw, tier):
    kind = draw(st.sampled_from(sorted(KINDS)))
    sc = draw(st.integers(0, 9)) < 4
    n = draw(st.integers(2, 7))
    m = draw(st.integers(1, 6))
    edges = []
    for i in range(m):
        k = draw(st.sampled_from([1, 2, 2, 3, 3, 4, 5]))
        mem = draw(st.lists(st.integers(0, n - 1), min_size=min(k, n), max_size=min(k, n), unique=True))
        edges.append([draw(st.sampled_from([None, None, "e%d" % i, 100 + i])), mem])
    if not any(len(e[1]) >= 2 for e in edges):
        edges.append([None, [0, 1]])
    return {
        "kind": kind, "sc": sc, "n": n, "edges": edges,
        "layout": draw(st.sampled_from(["circular", "spiral", "random", "pairwise", "barycenter", "weighted_barycenter", "kamada_kawai"])),
        "opts": {"center": draw(st.sampled_from([None, [1.0, -2.0]])), "center_form": draw(st.sampled_from(["list", "tuple", "numpy"])), "radius": draw(st.sampled_from([None, 2.5])), "resolution": draw(st.sampled_from([0.35, 1.0])),
                 "equidistant": draw(st.booleans()), "seed": draw(st.integers(0, 99)), "k": draw(st.sampled_from([None, 0.5])), "phantom": draw(st.booleans())},
        "max_order": draw(st.sampled_from([None, None, 1, 2, 3])),
        "style": draw(st.sampled_from(["default", "scalar", "list", "dict", "stat", "const-array", "dict-all"])),
        "fn": draw(st.sampled_from(["draw", "draw", "draw_nodes", "draw_hyperedges", "draw_simplices"])),
        "posmode": draw(st.sampled_from(["same", "same", "reversed", "extra", "line", "grid"])),
        # presentation options that must not change what is rendered where (None = leave the default)
        "decor": draw(st.one_of(st.none(), st.fixed_dictionaries({
            "node_labels": st.sampled_from([None, True, "dict"]), "hyperedge_labels": st.sampled_from([None, True, "dict"]),
            "node_shape": st.sampled_from([None, "s", "^"]), "alpha": st.sampled_from([None, 1.0, 0.1]), "rescale_sizes": st.sampled_from([None, False]),
            "aspect": st.sampled_from([None, "auto"]), "dyad_style": st.sampled_from([None, "dashed"]), "edge_lw": st.sampled_from([None, 2]),
            "node_ec": st.sampled_from([None, "red"]), "hull": st.booleans()}))),
    }


def strategy(tier):
    return cases(tier)


def build(case):
    lab = KINDS[case["kind"]]
    H = xgi.SimplicialComplex() if case["sc"] else xgi.Hypergraph()
    H.add_nodes_from(lab[: case["n"]])
    for idx, mem in case["edges"]:
        if idx is not None and idx in H.edges:
            idx = None
        if case["sc"]:
            H.add_simplex([lab[i] for i in mem], idx=idx)
        else:
            H.add_edge([lab[i] for i in mem], idx=idx)
    return H


def key(p):
    return tuple(np.round(np.asarray(p, float), 9))


def check_layout(ctx, name, p, ids):
    ok = ctx.check(isinstance(p, dict) and set(p) == set(ids) and len(p) == len(ids), ("layout", name, "keys"), lambda: "%r vs %r" % (sorted(map(repr, p)), ids))
    if ok:
        ctx.check(all(np.asarray(v, float).shape == (2,) and np.all(np.isfinite(np.asarray(v, float))) for v in p.values()), ("layout", name, "finite-2d"), lambda: repr(p))
    return ok


def run_case(case, ctx):
    H = build(case)
    sc = case["sc"]
    nodes = list(H.nodes)
    mem = {e: frozenset(m) for e, m in H.edges.members(dtype=dict).items()}
    o = dict(case["opts"])
    if o.get("center") is not None:  # "array-like or None": a list, a tuple or a numpy array
        o["center"] = {"list": list, "tuple": tuple, "numpy": np.array}[o.get("center_form", "list")](o["center"])
    try:
        lays = {
            "circular": lambda: xgi.circular_layout(H, center=o["center"], radius=o["radius"]),
            "spiral": lambda: xgi.spiral_layout(H, center=o["center"], resolution=o["resolution"], equidistant=o["equidistant"]),
            "random": lambda: xgi.random_layout(H, center=o["center"], seed=o["seed"]),
            "pairwise": lambda: xgi.pairwise_spring_layout(H, seed=o["seed"], k=o["k"]),
            "barycenter": lambda: xgi.barycenter_spring_layout(H, return_phantom_graph=o["phantom"], seed=o["seed"], k=o["k"]),
            "weighted_barycenter": lambda: xgi.weighted_barycenter_spring_layout(H, return_phantom_graph=o["phantom"], seed=o["seed"], k=o["k"]),
            "kamada_kawai": lambda: xgi.barycenter_kamada_kawai_layout(H, return_phantom_graph=o["phantom"]),
        }
        name = case["layout"]
        p = lays[name]()
        if isinstance(p, tuple):  # (pos, phantom graph)
            p = p[0]
        pos = p if check_layout(ctx, name, p, nodes) else xgi.circular_layout(H)
        # the cheap layouts are checked on every case as well
        for nm in ("circular", "spiral", "random"):
            if nm != name:
                check_layout(ctx, nm, lays[nm](), nodes)
        if True:  # hypergraphs and complexes alike: one position per node and one per edge / simplex ID
            np_, ep = xgi.bipartite_spring_layout(H, seed=o["seed"], k=o["k"])
            check_layout(ctx, "bipartite-nodes", np_, nodes)
            check_layout(ctx, "bipartite-edges", ep, list(mem))
        # a position dict is keyed by node: neither its key order nor extra keys may matter
        pmode = case.get("posmode", "same")
        if pmode == "reversed":
            pos = {k: pos[k] for k in reversed(list(pos))}
        elif pmode == "extra":
            pos = dict([("__not_a_node__", np.array([9.0, 9.0]))] + list(pos.items()))
        elif pmode == "line":  # caller-supplied positions: all nodes on one line (members of an edge are collinear)
            pos = {v: np.array([float(i), 0.0]) for i, v in enumerate(pos)}
        elif pmode == "grid":  # ... or on a small integer grid (several members in the same direction from the centroid)
            pos = {v: np.array([float(i % 3), float(i // 3)]) for i, v in enumerate(pos)}
        bc = xgi.edge_positions_from_barycenters(H, pos)
        ctx.check(set(bc) == set(mem) and all(np.allclose(np.asarray(bc[e], float), np.mean([pos[v] for v in mem[e]], axis=0)) for e in mem if mem[e]),
                  ("layout", "edge_positions_from_barycenters", "mean-of-members"), lambda: repr(bc))
        # ---- drawing
        mo = case["max_order"]
        eff = mo if mo is not None else max(len(m) for m in mem.values()) - 1
        style = case["style"]
        fn = case["fn"]
        if fn == "draw_simplices" and not sc:
            fn = "draw_hyperedges"
        if fn == "draw_hyperedges" and sc:
            fn = "draw_simplices"
        msets = set(mem.values())
        if sc:
            dy_ids = [e for e in mem if len(mem[e]) == 2]
            sub = [m for m in msets if len(m) <= eff + 1]
            poly_sets = [m for m in sub if len(m) >= 3 and not any(m < x for x in sub)]
            poly_ids = None
        else:
            dy_ids = [e for e in mem if len(mem[e]) == 2]
            poly_ids = [e for e in mem if 3 <= len(mem[e]) <= eff + 1]
            poly_sets = [mem[e] for e in poly_ids]
        if eff < 1:
            dy_ids = []
        nkw, ekw = {}, {}
        if style == "scalar":
            nkw = {"node_fc": "tab:blue", "node_size": 12, "node_lw": 2}
            ekw = {"dyad_color": "red", "dyad_lw": 2.0, "edge_fc": "tab:green"}
        elif style == "list":
            nkw = {"node_fc": [float(i) for i in range(len(nodes))], "node_size": [5 + i for i in range(len(nodes))]}
        elif style == "dict" and sc:
            # draw_simplices re-indexes the maximal simplices it draws: per-ID dicts keyed by the complex's own
            # IDs are not a documented input there; per-node styles are exercised instead
            nkw = {"node_fc": {n: float(i) for i, n in enumerate(nodes)}} if False else {"node_fc": [float(i) for i in range(len(nodes))]}
        elif style == "dict":
            ekw = {"dyad_color": {e: "red" for e in dy_ids}, "dyad_lw": {e: 1.0 + i for i, e in enumerate(dy_ids)}}
            if poly_ids:
                ekw["edge_fc"] = {e: float(i) for i, e in enumerate(poly_ids)}
            if not dy_ids:
                ekw = {k: v for k, v in ekw.items() if not k.startswith("dyad")}
        elif style == "const-array":  # per-node values that happen to be all equal (a regular network, a constant dict)
            nkw = {"node_size": {n: 9 for n in nodes}, "node_lw": [2.0] * len(nodes)}
        elif style == "stat":
            nkw = {"node_fc": H.nodes.degree, "node_size": H.nodes.degree}
            ekw = {"edge_fc": H.edges.size, "dyad_lw": H.edges.order} if not sc else {}
        elif style == "dict-all" and not sc:  # per-ID values for *every* edge, whether it is drawn as a line or not
            ekw = {"dyad_lw": {e: 1.0 + (i % 3) for i, e in enumerate(mem)}}
        dec = case.get("decor") or {}
        hull = bool(dec.get("hull")) and not sc
        if dec:
            lab_n = {n: "n%d" % i for i, n in enumerate(nodes)}
            lab_e = {e: "e%d" % i for i, e in enumerate(mem)}
            if dec.get("node_labels") is not None:
                nkw["node_labels"] = lab_n if dec["node_labels"] == "dict" else True
            for k in ("node_shape", "node_ec", "rescale_sizes"):
                if dec.get(k) is not None:
                    nkw[k] = dec[k]
            if dec.get("hyperedge_labels") is not None and not sc:
                ekw["hyperedge_labels"] = lab_e if dec["hyperedge_labels"] == "dict" else True
            for k in ("alpha", "dyad_style", "rescale_sizes") + (() if sc else ("edge_lw",)):
                if dec.get(k) is not None:
                    ekw[k] = dec[k]
            if hull:
                ekw["hull"] = True
        fig, ax = plt.subplots()
        nc = dc = ec = None
        if fn == "draw" and dec.get("aspect") is not None:
            ekw["aspect"] = dec["aspect"]
        if fn == "draw":
            ax, (nc, dc, ec) = xgi.draw(H, pos=pos, ax=ax, max_order=mo, **{**nkw, **ekw})
        elif fn == "draw_nodes":
            ax, nc = xgi.draw_nodes(H, pos=pos, ax=ax, **nkw)
        elif fn == "draw_hyperedges":
            ax, (dc, ec) = xgi.draw_hyperedges(H, pos=pos, ax=ax, max_order=mo, **{k: v for k, v in ekw.items() if k != "aspect"})
        else:
            ax, (dc, ec) = xgi.draw_simplices(H, pos=pos, ax=ax, max_order=mo, **{k: v for k, v in ekw.items() if k not in ("aspect", "hull") and (k != "edge_fc" or not isinstance(v, dict))})
        ctx.event("drew:" + fn + ":" + style)
        if nc is not None:
            # a marker that matplotlib masks out, or whose size / line width is not a finite number, is not rendered (size 0 is what a caller may ask for)
            offm = nc.get_offsets()
            masked = bool(np.ma.is_masked(offm)) and bool(np.ma.getmaskarray(offm).any())
            sizes, lws = np.asarray(nc.get_sizes(), float), np.asarray(nc.get_linewidths(), float)
            ctx.check(not masked and np.all(np.isfinite(sizes)) and np.all(sizes >= 0) and np.all(np.isfinite(lws)), ("draw", fn, "node-markers-not-rendered"),
                      lambda: "masked %s sizes %r linewidths %r" % (masked, sizes.tolist(), lws.tolist()))
            off = np.asarray(nc.get_offsets(), float)
            want = np.asarray([pos[v] for v in nodes], float)
            ctx.check(off.shape == want.shape and np.allclose(off, want), ("draw", fn, "node-markers"), lambda: "offsets %r expected %r" % (off.tolist(), want.tolist()))
        if dc is not None:
            got = collections.Counter(frozenset(key(q) for q in s) for s in dc.get_segments())
            want = collections.Counter(frozenset(key(pos[v]) for v in mem[e]) for e in dy_ids)
            ctx.check(got == want, ("draw", fn, "dyad-lines"), lambda: "max_order %r: %d segments, expected %d; members %r" % (mo, sum(got.values()), sum(want.values()), {e: sorted(map(repr, m)) for e, m in mem.items()}))
        if ec is not None and hull:
            # convex hulls with a margin: one patch per larger edge, not the members' positions themselves
            ctx.check(len(ec.get_paths()) == len(poly_sets), ("draw", fn, "hull-count"), lambda: "%d hulls for %d edges" % (len(ec.get_paths()), len(poly_sets)))
        elif ec is not None:
            got = collections.Counter(frozenset(key(q) for q in path.vertices) for path in ec.get_paths())
            want = collections.Counter(frozenset(key(pos[v]) for v in m) for m in poly_sets)
            ctx.check(got == want, ("draw", fn, "polygons"), lambda: "max_order %r: %d polygons, expected %d; members %r" % (mo, sum(got.values()), sum(want.values()), {e: sorted(map(repr, m)) for e, m in mem.items()}))
    finally:
        plt.close("all")
    iso = any(not H.nodes.memberships(n) for n in nodes)
    single = any(len(m) == 1 for m in mem.values())
    ctx.mark((iso or single or case["kind"] in ("str", "mstr")) and any(len(m) >= 3 for m in mem.values()))
