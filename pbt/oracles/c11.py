"""C11 - what is written to disk reads back as the same network (write-then-read round trips)."""
import os
import shutil
import tempfile

import numpy as np
from hypothesis import strategies as st

import xgi

from .. import nets
from .c10 import full, full_diff, homogeneous, inc

PID = "C11"
RULE = (
    "case = network of one of the three classes with JSON-representable labels and (nested) attribute values, isolated "
    "nodes and empty edges + a single-character delimiter from {' ', ',', tab, ';', '|', ':'} + a second network for collections; files "
    "go to a fresh temp dir. write_hif/read_hif (all classes) and write_json/read_json (undirected, string-castable "
    "labels) must give back class, nodes, edges, members or tail/head and all three attribute levels; the edge-list, "
    "bipartite edge-list (also dual) and incidence-matrix text formats must give back the same incidences under the "
    "documented casts (int, float for float node labels next to int edge IDs, explicit str, or none; the HIF and JSON readers also under str / float casts chosen independently for nodes and edges), down to 1x1 / 1xm / nx1 matrices; HIF and JSON collections (list and dict) read back key by key. "
    "non-trivial = the file has >=2 records and (HIF/JSON) an attribute, isolated node or empty edge"
)
BUDGET = {"quick": 900, "thorough": 25000}
ASSUMPTIONS = [
    "the three text formats are exercised on networks without empty edges (they cannot represent them) and labels free of whitespace, the delimiter and '#'",
    "only complete write-then-read cycles are considered (the statement has no crash points)",
]

DELIMS = [" ", ",", "\t", ";", "|", ":"]  # documented as a single character
# names of the members of a dict collection: plain, differing only after a dot, one looking like a file name
COLL_KEYS = {"dict": ("first", "second"), "dict-dotted": ("v1.0", "v1.1"), "dict-ext": ("data", "data.json")}


@st.composite
def cases(draw, tier):
    cls = draw(st.sampled_from(["H", "H", "DH", "SC"]))
    kind = draw(nets.kinds)
    spec = draw(nets.net_spec(cls=cls, kind=kind, max_edges=5, allow_empty=(cls != "SC" and draw(st.integers(0, 2)) == 0), nested=True))
    other = draw(nets.net_spec(cls=draw(st.sampled_from(["H", "DH", "SC"])), kind=kind, max_edges=3, nested=True))
    # text formats: also float node labels next to the (int) edge IDs, read back with nodetype=float
    tk = draw(st.integers(0, 7))
    tkind = "float" if tk == 0 else ("uni" if tk == 1 else ("brk" if tk == 2 else kind))  # "uni": non-ASCII labels (encoding); "brk": see nets
    txt = draw(nets.net_spec(cls="H", kind=tkind, max_edges=5, max_size=4, allow_empty=False, with_attrs=False, min_edges=1,
                             ids=draw(st.sampled_from(["auto", "perm", "gap", "str"]))))
    shape = draw(st.sampled_from([None, None, [1, 1], [1, 3], [3, 1], [2, 2]]))
    return {"spec": spec, "other": other, "text": txt, "delim": draw(st.sampled_from(DELIMS)), "shape": shape, "explicit_str": draw(st.booleans()),
            "coll": draw(st.sampled_from(["list", "dict", "dict-dotted", "dict-ext"])), "cname": draw(st.sampled_from(["", "c", "my_set"])),
            "encoding": draw(st.sampled_from([None, None, "utf-8", "latin-1"])), "awkward": draw(st.integers(0, 3)) == 0,
            # casts asked of the HIF / JSON readers for nodes and for edges, independently (None = reader default)
            "casts": [draw(st.sampled_from([None, None, "str", "float"])), draw(st.sampled_from([None, None, "str", "float"]))], "default_delim": draw(st.integers(0, 5)) == 0}


def strategy(tier):
    return cases(tier)


def attempt(ctx, name, f):
    try:
        return True, f()
    except Exception as e:  # noqa: BLE001   an in-domain network must be written and read without error
        ctx.fail(("file", name, "raised", type(e).__name__), "%r" % (e,))
        return False, None


def resolve_cast(name, labels):
    """the cast to pass for this label set (None when it is not applicable: float needs numbers, str must stay injective)"""
    labels = list(labels)
    if name == "float" and labels and all(isinstance(x, (int, float, np.integer)) and not isinstance(x, bool) for x in labels):
        return float
    if name == "str" and len({str(x) for x in labels}) == len(labels):
        return str
    return None


def full_cast(H, nc, ec):
    """full(H) with the node labels mapped through nc and the edge IDs through ec"""
    f = full(H)
    nc = nc or (lambda x: x)
    ec = ec or (lambda x: x)
    inc_ = {(nc(t[0]), ec(t[1])) + tuple(t[2:]) for t in f[3]}
    return (f[0], {nc(n): a for n, a in f[1].items()}, {ec(e): a for e, a in f[2].items()}, inc_, {ec(e) for e in f[4]}, f[5])


def json_nettype(H):
    nodes, edges = list(H.nodes), list(H.edges)
    nt = int if homogeneous(nodes, int) else (str if homogeneous(nodes, str) else None)
    et = int if homogeneous(edges, int) else (str if homogeneous(edges, str) else None)
    return nt, et


def run_case(case, ctx):
    tmp = tempfile.mkdtemp(prefix="xgi_c11_")
    try:
        _run(case, ctx, tmp)
    finally:
        shutil.rmtree(tmp, ignore_errors=True)


def _run(case, ctx, tmp):
    H = nets.build(case["spec"])
    if case.get("awkward"):
        nets.awkward_attr_names(H)
    O = nets.build(case["other"])
    cls = case["spec"]["cls"]
    ctx.event("class:" + cls)
    nodes, edges = list(H.nodes), list(H.edges)
    rich = any(H.nodes[n] for n in nodes) or any(H.edges[e] for e in edges) or bool(H._net_attr) or any(not H.nodes.memberships(n) for n in nodes) or any(len(H.edges.members(e)) == 0 for e in edges)

    # ---- HIF, all classes
    p = os.path.join(tmp, "h.json")
    ok, R = attempt(ctx, "hif", lambda: (xgi.write_hif(H, p), xgi.read_hif(p))[1])
    if ok:
        d = full_diff(full(R), full(H))
        ctx.check(not d, ("file", "hif", "+".join(d), cls), lambda: "got %r expected %r" % (full(R), full(H)))
    # the same path written again with another network: the reader must return what the file holds now
    ok, R = attempt(ctx, "hif-rewritten", lambda: (xgi.write_hif(O, p), xgi.read_hif(p))[1])
    if ok:
        d = full_diff(full(R), full(O))
        ctx.check(not d, ("file", "hif", "stale-after-rewrite", "+".join(d)), lambda: "got %r expected %r" % (full(R), full(O)))
    attempt(ctx, "hif-rewrite-back", lambda: xgi.write_hif(H, p))
    cn, ce = case.get("casts") or [None, None]
    nc, ec = resolve_cast(cn, nodes), resolve_cast(ce, edges)
    if nc is not None or ec is not None:
        ok, R = attempt(ctx, "hif-casts", lambda: xgi.read_hif(p, nodetype=nc, edgetype=ec))
        if ok:
            want = full_cast(H, nc, ec)
            d = full_diff(full(R), want)
            ctx.check(not d, ("file", "hif-casts", "+".join(d), cls), lambda: "nodetype %r edgetype %r: got %r expected %r" % (nc, ec, full(R), want))
    # ---- HIF collection (list keys become positions, dict keys are kept)
    cdir = os.path.join(tmp, "coll")
    os.makedirs(cdir)
    k1, k2 = COLL_KEYS.get(case["coll"], ("first", "second"))
    coll = [H, O] if case["coll"] == "list" else {k1: H, k2: O}
    cname = case["cname"] or "x"
    ok, R = attempt(ctx, "hif_collection", lambda: (xgi.write_hif_collection(coll, cdir, collection_name=cname), xgi.read_hif_collection(os.path.join(cdir, cname + "_collection_information.json")))[1])
    if ok:
        exp = {str(i): x for i, x in enumerate(coll)} if isinstance(coll, list) else coll
        ctx.check(set(R) == set(exp), ("file", "hif_collection", "keys"), lambda: "%r vs %r" % (sorted(R), sorted(exp)))
        for k in exp:
            if k in R:
                d = full_diff(full(R[k]), full(exp[k]))
                ctx.check(not d, ("file", "hif_collection", "+".join(d)), lambda: "key %r: got %r expected %r" % (k, full(R[k]), full(exp[k])))
        # the same collection read under casts (applicable to every member)
        onodes, oedges = list(O.nodes), list(O.edges)
        nc2 = nc if nc is not None and resolve_cast(cn, onodes) is nc else None
        ec2 = ec if ec is not None and resolve_cast(ce, oedges) is ec else None
        if nc2 is not None or ec2 is not None:
            ok, R = attempt(ctx, "hif_collection-casts", lambda: xgi.read_hif_collection(os.path.join(cdir, cname + "_collection_information.json"), nodetype=nc2, edgetype=ec2))
            if ok:
                for k in exp:
                    if k in R:
                        want = full_cast(exp[k], nc2, ec2)
                        d = full_diff(full(R[k]), want)
                        ctx.check(not d, ("file", "hif_collection-casts", "+".join(d)), lambda: "key %r nodetype %r edgetype %r: got %r expected %r" % (k, nc2, ec2, full(R[k]), want))
    # ---- JSON (deprecated writer): undirected hypergraphs whose labels survive the string cast
    if cls == "H":
        nt, et = json_nettype(H)
        if nt is not None and et is not None:
            p = os.path.join(tmp, "j.json")
            ok, R = attempt(ctx, "json", lambda: (xgi.write_json(H, p), xgi.read_json(p, nodetype=nt, edgetype=et))[1])
            if ok:
                d = full_diff(full(R), full(H))
                ctx.check(not d, ("file", "json", "+".join(d)), lambda: "got %r expected %r" % (full(R), full(H)))
            # other documented casts of the JSON reader: float for numeric labels (1 -> 1.0, the same key)
            ntf = float if (cn == "float" and nt is int) else nt
            etf = float if (ce == "float" and et is int) else et
            if (ntf, etf) != (nt, et):
                ok, R = attempt(ctx, "json-float-casts", lambda: xgi.read_json(p, nodetype=ntf, edgetype=etf))
                if ok:
                    d = full_diff(full(R), full(H))
                    ctx.check(not d, ("file", "json-float-casts", "+".join(d)), lambda: "nodetype %r edgetype %r: got %r expected %r" % (ntf, etf, full(R), full(H)))
            O2 = nets.build(case["text"])
            nt2, et2 = json_nettype(O2)
            if (nt2, et2) == (nt, et):
                jdir = os.path.join(tmp, "jcoll")
                os.makedirs(jdir)
                coll = [H, O2] if case["coll"] == "list" else {k1: H, k2: O2}
                pre = (case["cname"] + "_") if case["cname"] else ""
                ok, R = attempt(ctx, "json_collection", lambda: (xgi.write_json(coll, jdir, collection_name=case["cname"]), xgi.read_json(os.path.join(jdir, pre + "collection_information.json"), nodetype=nt, edgetype=et))[1])
                if ok:
                    exp = {str(i): x for i, x in enumerate(coll)} if isinstance(coll, list) else coll
                    ctx.check(isinstance(R, dict) and set(R) == set(exp), ("file", "json_collection", "keys"), lambda: "%r" % (R,))
                    if isinstance(R, dict):
                        for k in exp:
                            if k in R:
                                d = full_diff(full(R[k]), full(exp[k]))
                                ctx.check(not d, ("file", "json_collection", "+".join(d)), lambda: "key %r" % (k,))
        else:
            ctx.event("json-skipped-mixed-labels")

    # ---- text formats
    T = nets.build(case["text"])
    delim = case["delim"]
    tn, te = list(T.nodes), list(T.edges)
    # documented casts: int for int labels; for string labels either no cast or an explicit `str`
    strcast = str if case.get("explicit_str") else None
    nt = int if homogeneous(tn, int) else (float if homogeneous(tn, float) else strcast)
    et = int if homogeneous(te, int) else strcast
    I = inc(T)
    members = T.edges.members(dtype=dict)
    if case["shape"]:
        r, c = case["shape"]
        T = xgi.Hypergraph()
        alph = {**nets.SPEC_KINDS, **nets.EXTRA_KINDS}[case["text"]["kind"]]
        for j in range(c):
            T.add_edge([alph[i] for i in range(r)] if j % 2 == 0 or r == 1 else [alph[0]], idx=j)
        for i in range(r):
            if alph[i] not in T.nodes:
                T.add_node(alph[i])
        tn, te = list(T.nodes), list(T.edges)
        nt, et = (int if homogeneous(tn, int) else (float if homogeneous(tn, float) else None)), int
        I = inc(T)
        members = T.edges.members(dtype=dict)
        ctx.event("shape:%dx%d" % (r, c))
    # optional arguments: the encoding (same on both sides) and the default delimiter (a blank when writing, any whitespace when reading)
    wk, rk = {"delimiter": delim}, {"delimiter": delim}
    if case.get("default_delim"):
        wk, rk, delim = {}, {}, "default"
    if case.get("encoding") and not (case["text"]["kind"] == "brk" and case["encoding"] == "latin-1"):  # U+2028 has no latin-1 form
        wk["encoding"] = rk["encoding"] = case["encoding"]
        ctx.event("encoding:" + case["encoding"])
    if case["text"]["kind"] == "brk" and (case.get("default_delim") or delim in (" ", "\t", "default")):
        return  # labels holding line-boundary characters are whitespace to a whitespace delimiter: not in its domain
    p = os.path.join(tmp, "e.txt")
    ok, R = attempt(ctx, "edgelist", lambda: (xgi.write_edgelist(T, p, **wk), xgi.read_edgelist(p, nodetype=nt, **rk))[1])
    if ok:
        ctx.check([frozenset(m) for m in R.edges.members()] == [frozenset(members[e]) for e in te], ("file", "edgelist", "members-in-order"), lambda: "delimiter %r: got %r expected %r" % (delim, R.edges.members(), members))
    p = os.path.join(tmp, "b.txt")
    ok, R = attempt(ctx, "bipartite_edgelist", lambda: (xgi.write_bipartite_edgelist(T, p, **wk), xgi.read_bipartite_edgelist(p, nodetype=nt, edgetype=et, **rk))[1])
    if ok:
        ctx.check(inc(R) == I, ("file", "bipartite_edgelist", "incidences"), lambda: "delimiter %r: got %r expected %r" % (delim, inc(R), I))
    ok, R = attempt(ctx, "bipartite_edgelist-dual", lambda: xgi.read_bipartite_edgelist(p, nodetype=et, edgetype=nt, dual=True, **rk))
    if ok:
        ctx.check(inc(R) == {(e, n) for n, e in I}, ("file", "bipartite_edgelist", "dual"), lambda: "got %r expected dual of %r" % (inc(R), I))
    p = os.path.join(tmp, "i.txt")
    ok, R = attempt(ctx, "incidence_matrix", lambda: (xgi.write_incidence_matrix(T, p, **wk), xgi.read_incidence_matrix(p, **rk))[1])
    if ok:
        M, rd, cd = xgi.to_incidence_matrix(T, sparse=False, index=True)
        try:
            got = {(rd[a], cd[b]) for a, b in inc(R)}
        except KeyError as e:
            got = "index %r out of range" % (e.args[0],)
        ctx.check(got == I, ("file", "incidence_matrix", "positional-incidences"), lambda: "shape %r delimiter %r: got %r expected %r" % (np.shape(M), delim, got, I))
    ctx.mark((len(nodes) + len(edges) >= 2 and rich) and len(I) >= 2)
