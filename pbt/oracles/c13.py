"""C13 - boundary operators form a chain complex (exhaustive on <= 4 vertices + generated complexes)."""
import itertools

import numpy as np
from hypothesis import strategies as st

import xgi

from .. import nets

PID = "C13"
RULE = (
    "enumerated part: every simplicial complex on the vertex sets {0..n-1}, n <= 4 (all downward-closed families of "
    "simplices with >= 2 nodes, with and without explicit single-node simplices) x the default orientation + 16 drawn "
    "orientation assignments (quick) or all 2^k assignments (thorough); generated part: complexes on <= 7 vertices with "
    "int / negative / float / string / mixed int-and-string labels (incl. numbers whose string order differs from their numeric order), explicit simplex IDs and drawn orientations given as ints, Python bools, numpy bools or numpy ints. Oracle "
    "for k = 1..dim+1: each column of B_k has exactly k+1 non-zeros, all +-1, at the faces of that simplex (through the "
    "index maps); B_k B_{k+1} = 0 exactly; every Hodge Laplacian symmetric PSD; dim ker L_0 = number of components "
    "Every case is evaluated again after a new triangle was added to the same complex. "
    "computed by the harness. non-trivial = the complex has a simplex of order >= 2 and a non-default orientation"
)
BUDGET = {"quick": 500, "thorough": 20000}
ASSUMPTIONS = [
    "connected components for the kernel check are computed by the harness with a union-find over the simplices",
    "orientations are supplied for every simplex with >= 2 nodes, as the API expects",
]
SHRINK_KEYS = ("simplices",)

LABELS = {
    "int": [0, 1, 2, 3, 4, 5, 6],
    "neg": [-3, -1, 0, 2, 5, 9, 11],
    "float": [0.5, 1.5, 2.0, 3.25, -1.5, 7.5, 10.0],
    "str": ["a", "b", "c", "d", "e", "f", "g"],
    "mixed": [2, "a", 10, "b", -1, "c", -2],  # numbers whose string order differs from their numeric order
    "mixed2": [0, "a", 2, "b", 5, "c", "10"],
    "mixedfloat": [1.5, "a", 10, 2, "b", -0.5, "3"],
    "str2": ["10", "9", "b", "a1", "a", "Z", "_"],
}


@st.composite
def cases(draw, tier):
    kind = draw(st.sampled_from(sorted(LABELS)))
    n = draw(st.integers(1, 7))
    sx = st.lists(st.integers(0, n - 1), min_size=1, max_size=min(n, 4 if tier == "quick" else 5), unique=True)
    simplices = draw(st.lists(sx, max_size=4))
    ids = draw(st.lists(st.one_of(st.none(), st.integers(0, 40), st.sampled_from(["s1", "s2", "x", "7"])), min_size=len(simplices), max_size=len(simplices)))
    ori = draw(st.one_of(st.none(), st.lists(st.integers(0, 1), min_size=8, max_size=8)))
    return {"kind": kind, "n": n, "simplices": simplices, "ids": ids, "isolated": draw(st.booleans()), "ori": ori,
            "ori_type": draw(st.sampled_from(["int", "bool", "npbool", "npint"]))}


def strategy(tier):
    return cases(tier)


def build(case):
    lab = LABELS[case["kind"]]
    S = xgi.SimplicialComplex()
    if case.get("isolated", True):
        S.add_nodes_from(lab[: case["n"]])
    used = set()
    ids = case.get("ids") or [None] * len(case["simplices"])
    for sx, idx in zip(case["simplices"], ids):
        if idx is not None and (repr(idx) in used or idx in S.edges):
            idx = None
        if idx is not None:
            used.add(repr(idx))
        S.add_simplex([lab[i] for i in sx], idx=idx)
    return S


def components(S):
    parent = {n: n for n in S.nodes}

    def find(x):
        while parent[x] != x:
            parent[x] = parent[parent[x]]
            x = parent[x]
        return x

    for m in S.edges.members():
        m = list(m)
        for a in m[1:]:
            parent[find(a)] = find(m[0])
    return len({find(n) for n in S.nodes})


def run_case(case, ctx):
    S = build(case)
    _evaluate(S, case, ctx)
    # the same complex after one more simplex was added in place: all matrices are derived and checked again
    if nets.small_edit(S) is not None:
        ctx.event("re-evaluated-after-edit")
        _evaluate(S, case, ctx)


def _evaluate(S, case, ctx):
    mem = {e: frozenset(m) for e, m in S.edges.members(dtype=dict).items()}
    big = [e for e in S.edges if len(mem[e]) >= 2]
    bits = case.get("ori")
    # the docstring calls the orientation of a simplex "boolean": ints 0/1, Python bools and numpy bools are all drawn
    cast = {"int": int, "bool": bool, "npbool": np.bool_, "npint": np.int64}[case.get("ori_type", "int")]
    ori = None if bits is None else {e: cast(bits[i % len(bits)]) for i, e in enumerate(big)}
    maxo = max([len(m) for m in mem.values()], default=1) - 1
    C = ctx.check
    Bs = {}
    for k in range(0, maxo + 3):
        B, rd, cd = xgi.boundary_matrix(S, k, ori, index=True)
        Bs[k] = B
        if k == 0:
            continue
        exp_cols = [e for e in S.edges if len(mem[e]) == k + 1]
        C(B.shape[1] == len(exp_cols) and set(cd.values()) == set(exp_cols), ("boundary", "columns-are-the-k-simplices"), lambda: "k=%d cols %r expected %r" % (k, cd, exp_cols))
        if k == 1:
            C(B.shape[0] == len(S.nodes) or B.shape[1] == 0 or B.size == 0, ("boundary", "rows-are-the-nodes"), "k=1 shape %r" % (B.shape,))
        for j, sid in cd.items():
            col = B[:, j]
            nz = np.nonzero(col)[0]
            if not C(len(nz) == k + 1 and bool(np.all(np.abs(col[nz]) == 1)), ("boundary", "column-has-k+1-unit-entries"), lambda: "k=%d simplex %r column %r" % (k, sorted(map(repr, mem[sid])), col.tolist())):
                continue
            faces = {frozenset([rd[i]]) if k == 1 else mem[rd[i]] for i in nz}
            want = {frozenset(c) for c in itertools.combinations(mem[sid], k)}
            C(faces == want, ("boundary", "entries-at-the-faces"), lambda: "k=%d simplex %r faces %r" % (k, sorted(map(repr, mem[sid])), faces))
    for k in range(1, maxo + 2):
        if Bs[k].shape[1] == Bs[k + 1].shape[0]:
            P = Bs[k] @ Bs[k + 1]
            C(P.size == 0 or bool(np.all(P == 0)), ("chain-complex", "B_k.B_k+1-nonzero"), lambda: "k=%d product %r orientations %r simplices %r" % (k, P.tolist(), ori, {e: sorted(map(repr, m)) for e, m in mem.items()}))
        else:
            C(Bs[k].size == 0 or Bs[k + 1].size == 0, ("chain-complex", "shapes-do-not-compose"), "k=%d %r %r" % (k, Bs[k].shape, Bs[k + 1].shape))
    for k in range(0, maxo + 2):
        L = xgi.hodge_laplacian(S, k, ori)
        if L.size:
            C(np.allclose(L, L.T), ("hodge", "symmetric"), "k=%d" % k)
            C(nets.min_eig(L) >= -1e-9, ("hodge", "psd"), "k=%d" % k)
    if len(S.nodes):
        L0 = xgi.hodge_laplacian(S, 0, ori)
        kd = sum(1 for v in np.linalg.eigvalsh(L0) if abs(v) < 1e-9) if (L0.size and np.all(np.isfinite(L0))) else 0
        C(L0.shape == (len(S.nodes), len(S.nodes)) and kd == components(S), ("hodge", "kernel-of-L0-vs-components"), lambda: "kernel dim %d, components %d" % (kd, components(S)))
    ctx.mark(maxo >= 2 and ori is not None and any(ori.values()))


# --------------------------------------------------------------------------------------------
# exhaustive enumeration of all complexes on <= 4 vertices


def all_complexes(n):
    faces = [c for r in range(2, n + 1) for c in itertools.combinations(range(n), r)]
    for mask in range(1 << len(faces)):
        fam = [faces[i] for i in range(len(faces)) if mask >> i & 1]
        fs = set(fam)
        if all(sub in fs for f in fam for r in range(2, len(f)) for sub in itertools.combinations(f, r)):
            yield fam


def _exhaustive(tier, seed, run):
    import random as _r

    n_cases = n_complexes = 0
    for n in (1, 2, 3, 4):
        for fam in all_complexes(n):
            n_complexes += 1
            for singles in (False, True):
                simplices = [list(f) for f in fam] + ([[i] for i in range(n)] if singles else [])
                k = len(fam)
                base = {"kind": "int", "n": n, "simplices": simplices, "ids": [None] * len(simplices), "isolated": True}
                run(dict(base, ori=None))
                n_cases += 1
                if k == 0:
                    continue
                if tier == "thorough" and k <= 12:
                    assignments = itertools.product((0, 1), repeat=k)
                else:
                    rng = _r.Random("%d|%d|%r" % (seed, n, fam))
                    assignments = {tuple(rng.randint(0, 1) for _ in range(k)) for _ in range(16)}
                for bits in assignments:
                    # orientation bits are consumed by position among the simplices with >= 2 nodes
                    run(dict(base, ori=list(bits) + [0] * max(0, 8 - k), ori_type=["int", "bool", "npbool", "npint"][(sum(bits) + k) % 4]))
                    n_cases += 1
    return {"exhaustive_complexes_on_le_4_vertices": n_complexes, "exhaustive_cases": n_cases,
            "exhaustive": tier == "thorough", "exhaustive_note": "all complexes on <= 4 vertices enumerated in both tiers; all orientation assignments only in the thorough tier"}


EXTRA = [_exhaustive]
