"""C03 - simplicial complexes stay downward closed and duplicate-free under every history."""
import itertools

import xgi

from .. import nets, scops

PID = "C03"
RULE = (
    "case = start complex (none / simplex list / dict / from a Hypergraph) + up to 25 (thorough 40) ops over the "
    "SimplicialComplex's own mutators (add_simplex, add_simplices_from in 5 formats x max_order in {None,0,1,2,3} x "
    "kwargs, weighted adders, remove_simplex_id(s), remove_node(s), close, cleanup, clear, attribute setters, the "
    "deprecated edge aliases), simplices up to 6 nodes, repeated nodes, None and empty members; after every op "
    "(returned or raised): downward closure, no duplicate member sets, no empty simplex, two-way incidence, "
    "exact coface removal, max_order respected, has_simplex exact, max_edge_order exact. non-trivial = (a simplex of "
    ">=4 nodes was added and a removal returned afterwards) or an add used max_order < size-2 of a named simplex"
)
BUDGET = {"quick": 3000, "thorough": 90000}
ASSUMPTIONS = [
    "inherited Hypergraph mutators that are not simplicial operations (double_edge_swap, random_edge_shuffle, merge_duplicate_edges, remove_node_from_edge, clear_edges, update) are not part of the statement's alphabet and are not drawn",
    "closure is checked for subsets of size >= 2 (single-node simplices are optional in xgi)",
]


def strategy(tier):
    return scops.history(max_ops=25 if tier == "quick" else 40, none_p=True, unique_bulk=False)


def probes(S, fam, kind):
    """present, absent and near-miss membership queries"""
    qs = []
    sets = list(fam)[:6]
    alph = nets.NODE_KINDS[kind]
    for s in sets:
        qs.append(set(s))
        if len(s) > 1:
            qs.append(set(list(s)[:-1]))
        for x in alph[:3]:
            qs.append(set(s) | {x})
    qs.append({alph[0], alph[-1]})
    qs.append(set())
    return qs


def run_case(case, ctx):
    try:
        S = scops.make_init(case["init"])
    except Exception:  # noqa: BLE001
        ctx.event("init-raised")
        return
    ctx.event("init:" + case["init"][0])
    big_added = False
    nontriv = False
    for step, op in enumerate(case["ops"]):
        cop = scops.concretise(S, op)
        name = cop[0]
        before = {e: frozenset(m) for e, m in S.edges.members(dtype=dict).items()}
        exc = None
        try:
            scops.apply_real(S, cop)
        except Exception as e:  # noqa: BLE001  exceptions are judged by C05
            exc = e
            ctx.event("op-raised")
        tag = "after-raise" if exc is not None else "after-return"
        errs = nets.integrity(S) + nets.stats_consistency(S)
        try:
            errs += nets.sc_closure_errors(S)
            after = {e: frozenset(m) for e, m in S.edges.members(dtype=dict).items()}
        except Exception as e:  # noqa: BLE001
            errs.append(("views-raise", repr(e)))
            after = {}
        fam = set(after.values())
        mo = scops.max_order_of(cop)
        sizes = scops.added_sizes(cop)
        if exc is None:
            if name in scops.ADDING:
                if any(s >= 4 for s in sizes):
                    big_added = True
                if mo is not None and any(mo < s - 2 for s in sizes):
                    nontriv = True
                    ctx.event("max_order-truncation")
                if mo is not None:
                    new = [m for e, m in after.items() if e not in before]
                    too_big = [m for m in new if len(m) > mo + 1]
                    if too_big:
                        errs.append(("max_order-exceeded", "max_order=%r created %r" % (mo, sorted(map(repr, too_big[0])))))
            if name in ("remove_simplex_id", "remove_edge"):
                t = before.get(cop[1])
                if t is None:
                    errs.append(("removed-a-missing-id-without-raising", repr(cop[1])))
                else:
                    expect = {s for s in before.values() if not t <= s}
                    if fam != expect:
                        errs.append(("remove-not-exactly-cofaces", "removed %r: extra %r missing %r" % (
                            sorted(map(repr, t)), [sorted(map(repr, s)) for s in fam - expect][:3], [sorted(map(repr, s)) for s in expect - fam][:3])))
            if name in scops.REMOVING and big_added and after != before:
                nontriv = True
                ctx.event("removal-after-big-simplex")
        # has_simplex answers membership exactly; max_edge_order is the brute-force maximum
        try:
            for q in probes(S, fam, case["kind"]):
                if S.has_simplex(q) != (frozenset(q) in fam):
                    errs.append(("has_simplex-wrong", "%r -> %r" % (sorted(map(repr, q)), S.has_simplex(q))))
                    break
            if after:
                if xgi.max_edge_order(S) != max(len(m) for m in fam) - 1:
                    errs.append(("max_edge_order-wrong", repr(xgi.max_edge_order(S))))
        except Exception as e:  # noqa: BLE001
            errs.append(("query-raises", repr(e)))
        for t, detail in errs[:4]:
            ctx.fail(("complex", name, t, tag), "step %d op %r exc %r: %s" % (step, cop, exc, detail))
        ctx.subchecks += 1
        if errs:
            break
    ctx.mark(nontriv)
    ctx.event("len>=10" if len(case["ops"]) >= 10 else "len<10")
