"""C10 - conversions between representations preserve the incidence relation (round trips)."""
import itertools
import random

import networkx as nx
from hypothesis import strategies as st

import xgi

from .. import nets

PID = "C10"
RULE = (
    "case = network of one of the three classes (isolated nodes, empty edges, multi-edges, explicit IDs of any kind, "
    "nested attributes at all three levels) + integer keys that permute the vertex insertion order and the edge "
    "orientation of the bipartite graph. Round trips through hyperedge list / dict, bipartite edge list, labelled and "
    "positional incidence matrix, bipartite graph (index maps; shuffled insertion order; dual=True), two-column dataframe (columns by name, by position, swapped), the "
    "standard hypergraph dict, the HIF dict (also under str casts), and the class-to-class constructors must return the same incidences "
    "(with direction), labels and order where carried, attributes and class where promised. non-trivial = the network "
    "has an isolated node, an empty edge or an attribute, and two edges sharing a node"
)
BUDGET = {"quick": 5000, "thorough": 120000}
ASSUMPTIONS = [
    "the standard hypergraph dict is exercised on undirected hypergraphs whose node labels (resp. edge IDs) are all ints or all strings, so that the documented nodetype/edgetype casts can restore them",
    "the hyperedge-list round trip is exercised on networks without empty edges (from_hyperedge_list cannot read an empty first edge)",
    "node order is not judged where the representation does not carry it",
]


@st.composite
def cases(draw, tier):
    cls = draw(st.sampled_from(["H", "H", "DH", "SC"]))
    spec = draw(nets.net_spec(wide_labels=True, cls=cls, max_edges=6, allow_empty=(cls != "SC" and draw(st.integers(0, 2)) == 0), nested=True, float_ids=True))
    return {"spec": spec, "keys": draw(st.lists(st.integers(0, 10**6), min_size=8, max_size=8)), "awkward": draw(st.integers(0, 3)) == 0}


def strategy(tier):
    return cases(tier)


def inc(H):
    if isinstance(H, xgi.DiHypergraph):
        dm = H.edges.dimembers(dtype=dict)
        return {(n, e, "t") for e, (t, h) in dm.items() for n in t} | {(n, e, "h") for e, (t, h) in dm.items() for n in h}
    return {(n, e) for e, m in H.edges.members(dtype=dict).items() for n in m}


def full(H):
    return (type(H).__name__, {n: dict(H.nodes[n]) for n in H.nodes}, {e: dict(H.edges[e]) for e in H.edges},
            inc(H), set(H.edges), dict(H._net_attr))


def full_diff(a, b):
    names = ("class", "node-attrs", "edge-attrs", "incidences", "edge-set", "net-attrs")
    return [names[i] for i in range(6) if a[i] != b[i]]


def full_diff_noclass(a, b):
    return [x for x in full_diff(("",) + tuple(a[1:]), ("",) + tuple(b[1:]))]


def homogeneous(xs, t):
    return all(isinstance(x, t) and not isinstance(x, bool) for x in xs)


def shuffled(xs, keys, salt):
    """permutation of xs that is a pure function of the drawn integer keys"""
    xs = list(xs)
    random.Random(repr((list(keys), salt))).shuffle(xs)
    return xs


def attempt(ctx, name, f):
    """a conversion of a generated (in-domain) network must not raise"""
    try:
        return True, f()
    except Exception as e:  # noqa: BLE001
        ctx.fail(("roundtrip", name, "raised", type(e).__name__), "%r" % (e,))
        return False, None


def run_case(case, ctx):
    H = nets.build(case["spec"])
    if case.get("awkward"):
        nets.awkward_attr_names(H)
    cls = case["spec"]["cls"]
    keys = case["keys"]
    ctx.event("class:" + cls)
    I = inc(H)
    members = H.edges.members(dtype=dict)
    has_empty = any(len(m) == 0 for m in members.values())
    nodes, edges = list(H.nodes), list(H.edges)

    # ---- HIF dict: everything, all three classes
    ok, R = attempt(ctx, "hif_dict", lambda: xgi.from_hif_dict(xgi.to_hif_dict(H)))
    if ok:
        d = full_diff(full(R), full(H))
        ctx.check(not d, ("roundtrip", "hif_dict", "+".join(d), cls), lambda: "got %r expected %r" % (full(R), full(H)))
    # the same dict object read twice: the reader must not change what it is given, and the second network equals the first
    ok, hd = attempt(ctx, "to_hif_dict", lambda: xgi.to_hif_dict(H))
    if ok:
        import copy as _copy

        hd0 = _copy.deepcopy(hd)
        ok, _ = attempt(ctx, "hif_dict-first-read", lambda: xgi.from_hif_dict(hd))
        ctx.check(hd == hd0, ("roundtrip", "hif_dict", "reader-changed-its-input"), lambda: "before %r after %r" % (hd0, hd))
        ok, R2 = attempt(ctx, "hif_dict-second-read", lambda: xgi.from_hif_dict(hd))
        if ok:
            d = full_diff(full(R2), full(H))
            ctx.check(not d, ("roundtrip", "hif_dict", "second-read-of-the-same-dict", "+".join(d), cls), lambda: "got %r expected %r" % (full(R2), full(H)))

    # the documented casts of the HIF reader: str() of every label
    ok, R = attempt(ctx, "hif_dict-str-casts", lambda: xgi.from_hif_dict(xgi.to_hif_dict(H), nodetype=str, edgetype=str))
    if ok and len({str(n) for n in nodes}) == len(nodes) and len({str(e) for e in edges}) == len(edges):
        got = {(a, b) + tuple(r) for a, b, *r in inc(R)}
        want = {(str(a), str(b)) + tuple(r) for a, b, *r in I}
        ctx.check(got == want and set(R.nodes) == {str(n) for n in nodes} and set(R.edges) == {str(e) for e in edges}, ("roundtrip", "hif_dict", "str-casts", cls), lambda: "got %r expected %r" % (got, want))

    # ---- bipartite graph (index maps), also with shuffled vertex insertion order / edge orientation
    if cls != "SC" or True:
        ok, r = attempt(ctx, "to_bipartite_graph", lambda: xgi.to_bipartite_graph(H, index=True))
        if ok:
            G, nd, ed = r
            ok, R = attempt(ctx, "from_bipartite_graph", lambda: xgi.from_bipartite_graph(G))
            if ok:
                if cls == "DH":
                    got = {(nd[a], ed[b], d) for a, b, d in inc(R)}
                else:
                    got = {(nd[a], ed[b]) for a, b in inc(R)}
                ctx.check(got == I, ("roundtrip", "bipartite_graph", "incidences", cls), lambda: "got %r expected %r" % (got, I))
                ctx.check({nd[a] for a in R.nodes} == set(nodes), ("roundtrip", "bipartite_graph", "node-set", cls), "")
            if cls != "DH":
                ok, Rd = attempt(ctx, "from_bipartite_graph-dual", lambda: xgi.from_bipartite_graph(G, dual=True))
                if ok:
                    try:
                        got = {(nd[b], ed[a]) for a, b in inc(Rd)}
                    except KeyError as e:
                        got = "role swap: %r" % (e.args[0],)
                    ctx.check(got == I, ("roundtrip", "bipartite_graph", "dual-incidences", cls), lambda: "got %r expected the dual of %r" % (got, I))
            # insertion order / orientation must not matter
            G2 = nx.DiGraph() if G.is_directed() else nx.Graph()
            G2.add_nodes_from(shuffled(list(G.nodes(data=True)), keys, 1))
            es = shuffled(list(G.edges), keys, 2)
            if not G.is_directed():
                es = [(b, a) if (keys[i % 8] + i) % 2 else (a, b) for i, (a, b) in enumerate(es)]
            G2.add_edges_from(es)
            ok, R2 = attempt(ctx, "from_bipartite_graph-shuffled", lambda: xgi.from_bipartite_graph(G2))
            if ok:
                try:
                    got = {(nd[a], ed[b], d) for a, b, d in inc(R2)} if cls == "DH" else {(nd[a], ed[b]) for a, b in inc(R2)}
                except KeyError as e:
                    got = "role swap: %r is not a %s index" % (e.args[0], "node/edge")
                ctx.check(got == I, ("roundtrip", "bipartite_graph", "depends-on-vertex-insertion-order", cls), lambda: "got %r expected %r" % (got, I))

    # ---- bipartite edge list (directed too)
    if I:
        ok, R = attempt(ctx, "bipartite_edgelist", lambda: xgi.from_bipartite_edgelist(xgi.to_bipartite_edgelist(H)))
        if ok:
            ctx.check(inc(R) == I and isinstance(R, xgi.DiHypergraph) == (cls == "DH"), ("roundtrip", "bipartite_edgelist", "incidences", cls), lambda: "got %r expected %r" % (inc(R), I))

    if cls == "DH":
        ok, R = attempt(ctx, "Hypergraph(DH)", lambda: xgi.Hypergraph(H))
        if ok:
            ctx.check(set(R.nodes) == set(nodes) and {n: R.nodes[n] for n in R.nodes} == {n: H.nodes[n] for n in nodes}, ("class-to-class", "Hypergraph(DH)", "nodes"), "")
            ctx.check({e: set(m) for e, m in R.edges.members(dtype=dict).items()} == {e: set(m) for e, m in members.items()}, ("class-to-class", "Hypergraph(DH)", "members"), lambda: "%r vs %r" % (R.edges.members(dtype=dict), members))
            ctx.check({e: R.edges[e] for e in R.edges} == {e: H.edges[e] for e in edges}, ("class-to-class", "Hypergraph(DH)", "edge-attrs"), "")
            ctx.check(dict(R._net_attr) == dict(H._net_attr), ("class-to-class", "Hypergraph(DH)", "net-attrs"), "")
        ok, R = attempt(ctx, "DiHypergraph(DH)", lambda: xgi.DiHypergraph(H))
        if ok:
            d = full_diff(full(R), full(H))
            ctx.check(not d, ("class-to-class", "DiHypergraph(DH)", "+".join(d)), "")
        ctx.mark((any(not H.nodes.memberships(n) for n in nodes) or has_empty or any(H.nodes[n] for n in nodes) or any(H.edges[e] for e in edges)) and shared_node(members))
        return

    # ---- undirected representations (Hypergraph and SimplicialComplex sources)
    target = xgi.Hypergraph
    ok, R = attempt(ctx, "hyperedge_dict", lambda: xgi.from_hyperedge_dict(xgi.to_hyperedge_dict(H)))
    if ok:
        ctx.check({e: set(m) for e, m in R.edges.members(dtype=dict).items()} == {e: set(m) for e, m in members.items()}, ("roundtrip", "hyperedge_dict", "members", cls), lambda: "%r vs %r" % (R.edges.members(dtype=dict), members))
        ctx.check(list(R.edges) == edges, ("roundtrip", "hyperedge_dict", "edge-order", cls), lambda: "%r vs %r" % (list(R.edges), edges))
    if edges and not has_empty:
        ok, R = attempt(ctx, "hyperedge_list", lambda: xgi.from_hyperedge_list(xgi.to_hyperedge_list(H)))
        if ok:
            ctx.check([frozenset(m) for m in R.edges.members()] == [frozenset(members[e]) for e in edges], ("roundtrip", "hyperedge_list", "members-in-order", cls), lambda: "%r vs %r" % (R.edges.members(), members))
    if I:
        ok, r = attempt(ctx, "to_incidence_matrix", lambda: xgi.to_incidence_matrix(H, index=True))
        if ok:
            M, rd, cd = r
            ok, R = attempt(ctx, "from_incidence_matrix-labelled", lambda: xgi.from_incidence_matrix(M, nodelabels=[rd[i] for i in range(len(rd))], edgelabels=[cd[i] for i in range(len(cd))]))
            if ok:
                ctx.check(inc(R) == I, ("roundtrip", "incidence_matrix", "labelled", cls), lambda: "got %r expected %r" % (inc(R), I))
            ok, R = attempt(ctx, "from_incidence_matrix-positional", lambda: xgi.from_incidence_matrix(xgi.to_incidence_matrix(H, sparse=False)))
            if ok:
                got = {(rd[a], cd[b]) for a, b in inc(R)}
                ctx.check(got == I, ("roundtrip", "incidence_matrix", "positional", cls), lambda: "got %r expected %r" % (got, I))
        ok, df = attempt(ctx, "to_bipartite_pandas_dataframe", lambda: xgi.to_bipartite_pandas_dataframe(H))
        if ok:
            ok, R = attempt(ctx, "from_bipartite_pandas_dataframe", lambda: xgi.from_bipartite_pandas_dataframe(df, node_column="Node ID", edge_column="Edge ID"))
            if ok:
                ctx.check(inc(R) == I, ("roundtrip", "pandas", "by-column-name", cls), lambda: "got %r expected %r" % (inc(R), I))
            ok, R = attempt(ctx, "from_bipartite_pandas_dataframe-positional", lambda: xgi.from_bipartite_pandas_dataframe(df))
            if ok:
                ctx.check(inc(R) == I, ("roundtrip", "pandas", "by-position", cls), lambda: "got %r expected %r" % (inc(R), I))
            ok, R = attempt(ctx, "from_bipartite_pandas_dataframe-swapped", lambda: xgi.from_bipartite_pandas_dataframe(df[["Edge ID", "Node ID"]], node_column=1, edge_column=0))
            if ok:
                ctx.check(inc(R) == I, ("roundtrip", "pandas", "swapped-columns-by-position", cls), lambda: "got %r expected %r" % (inc(R), I))
            ok, R = attempt(ctx, "Hypergraph(df)", lambda: xgi.Hypergraph(df))
            if ok:
                ctx.check(inc(R) == I, ("roundtrip", "pandas", "constructor", cls), lambda: "got %r expected %r" % (inc(R), I))
    # ---- standard hypergraph dict: isolated nodes, empty edges, all attributes, under the documented casts
    if cls == "H":
        nt = int if homogeneous(nodes, int) else (None if homogeneous(nodes, str) else "skip")
        et = int if homogeneous(edges, int) else (None if homogeneous(edges, str) else "skip")
        if nt != "skip" and et != "skip":
            ok, R = attempt(ctx, "hypergraph_dict", lambda: xgi.from_hypergraph_dict(xgi.to_hypergraph_dict(H), nodetype=nt, edgetype=et))
            if ok:
                d = full_diff(full(R), full(H))
                ctx.check(not d, ("roundtrip", "hypergraph_dict", "+".join(d)), lambda: "got %r expected %r" % (full(R), full(H)))
        else:
            ctx.event("hypergraph_dict-skipped-mixed-labels")
    # ---- class to class
    if cls == "SC":
        ok, R = attempt(ctx, "Hypergraph(SC)", lambda: xgi.Hypergraph(H))
        if ok:
            d = full_diff_noclass(full(R), full(H))
            ctx.check(not d, ("class-to-class", "Hypergraph(SC)", "+".join(d)), lambda: "got %r expected %r" % (full(R), full(H)))
        ok, R = attempt(ctx, "SimplicialComplex(SC)", lambda: xgi.SimplicialComplex(H))
        if ok:
            d = full_diff(full(R), full(H))
            ctx.check(not d, ("class-to-class", "SimplicialComplex(SC)", "+".join(d)), "")
    else:
        ok, S = attempt(ctx, "SimplicialComplex(H)", lambda: xgi.SimplicialComplex(H))
        if ok:
            want = {frozenset(c) for m in members.values() if m for k in range(2, len(m) + 1) for c in itertools.combinations(sorted(m, key=repr), k)} | {frozenset(m) for m in members.values() if len(m) == 1}
            got = [frozenset(m) for m in S.edges.members()]
            ctx.check(set(got) == want and len(got) == len(want), ("class-to-class", "SimplicialComplex(H)", "member-sets"), lambda: "got %r expected %r" % (got, want))
            ctx.check({n: S.nodes[n] for n in S.nodes} == {n: H.nodes[n] for n in nodes}, ("class-to-class", "SimplicialComplex(H)", "nodes"), "")
            ctx.check(dict(S._net_attr) == dict(H._net_attr), ("class-to-class", "SimplicialComplex(H)", "net-attrs"), lambda: "%r vs %r" % (S._net_attr, H._net_attr))
            sm = S.edges.members(dtype=dict)
            for e in edges:  # a kept ID keeps its attributes
                if e in sm and set(sm[e]) == set(members[e]):
                    ctx.check(S.edges[e] == H.edges[e], ("class-to-class", "SimplicialComplex(H)", "edge-attrs"), lambda: "%r: %r vs %r" % (e, S.edges[e], H.edges[e]))
            # every source member set is present
            fam = set(got)
            ctx.check(all(frozenset(m) in fam for m in members.values() if m), ("class-to-class", "SimplicialComplex(H)", "source-edge-missing"), "")
        ok, R = attempt(ctx, "Hypergraph(H)", lambda: xgi.Hypergraph(H))
        if ok:
            d = full_diff(full(R), full(H))
            ctx.check(not d, ("class-to-class", "Hypergraph(H)", "+".join(d)), "")
    ctx.mark((any(not H.nodes.memberships(n) for n in nodes) or has_empty or any(H.nodes[n] for n in nodes) or any(H.edges[e] for e in edges)) and shared_node(members))


def shared_node(members):
    ms = [set(m) for m in members.values()]
    return any(a & b for a, b in itertools.combinations(ms, 2))
