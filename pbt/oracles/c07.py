"""C07 - copies, pickles and network-to-network constructors are equal and independent."""
import copy
import pickle

from hypothesis import strategies as st

import xgi

from .. import dhops, hops, nets, scops

PID = "C07"
RULE = (
    "case = network of one of the three classes (any label kind, explicit IDs incl. 0, empty edges, isolated nodes, "
    "nested list/dict attribute values, tuples holding lists) + derivation (copy / pickle round trip / constructor of its own class / "
    "copy of a copy) + an edit history applied to a drawn side (source or derived) + in-place mutation of nested "
    "attribute values reached through the derived network + 1-3 automatic additions on both sides. Oracle: equal "
    "observable snapshots right after the derivation; the untouched side's deep snapshot (incl. next automatic ID) is "
    "unchanged by the edits; nested mutations through copy()/pickle are invisible in the source; both sides then assign "
    "fresh IDs; a second derivation from the edited source equals the source as it is then. non-trivial = the source has a nested mutable attribute value or an explicit ID, and the history "
    "changed some edge's members; distinct = distinct canonical JSON"
)
BUDGET = {"quick": 2400, "thorough": 80000}
ASSUMPTIONS = [
    "independence of nested attribute values is claimed (and checked) for copy() and pickle; the constructor Class(H) shares nested values by design and is checked for structural independence and top-level attribute independence only",
]

HOWS = ["copy", "copy", "pickle", "ctor", "copycopy", "deepcopy"]
H_OPS = set(hops.EDGE_CREATING) | {"add_node", "add_nodes_from", "remove_node", "remove_nodes_from", "set_node_attributes", "set_edge_attributes",
                                   "double_edge_swap", "random_edge_shuffle", "remove_edge", "remove_edges_from", "remove_node_from_edge",
                                   "merge_duplicate_edges", "clear_edges", "set_net_attr"}
DH_OPS = {"add_node", "add_nodes_from", "remove_node", "remove_nodes_from", "set_node_attributes", "add_edge", "add_edges_from",
          "set_edge_attributes", "add_node_to_edge", "remove_edge", "remove_edges_from", "remove_node_from_edge", "set_net_attr"}
SC_OPS = {"add_node", "add_nodes_from", "remove_node", "remove_nodes_from", "set_node_attributes", "add_simplex", "add_simplices_from",
          "add_weighted_simplices_from", "set_edge_attributes", "remove_simplex_id", "remove_simplex_ids_from", "close"}


@st.composite
def cases(draw, tier):
    cls = draw(st.sampled_from(["H", "H", "DH", "SC"]))
    kind = draw(nets.kinds)
    spec = draw(nets.net_spec(cls=cls, kind=kind, max_edges=5, allow_empty=(cls != "SC"), nested=True, tuples=True, float_ids=True, big_ids=True))
    n = 8 if tier == "quick" else 16
    if cls == "H":
        op = hops.op_strategy(kind, none_p=True, bulk_empty=False, heavy=False, only=H_OPS)
    elif cls == "DH":
        op = dhops.op_strategy(kind, none_p=True, only=DH_OPS)
    else:
        op = scops.op_strategy(kind, none_p=True, unique_bulk=True, only=SC_OPS)
    return {"cls": cls, "kind": kind, "base": spec, "how": draw(st.sampled_from(HOWS)), "side": draw(st.sampled_from(["source", "derived"])),
            "ops": draw(st.lists(op, max_size=n)), "nested": draw(st.booleans()), "adds": draw(st.integers(1, 3)),
            "awkward": draw(st.integers(0, 3)) == 0}


def strategy(tier):
    return cases(tier)


def derive(H, how):
    if how == "copy":
        return H.copy()
    if how == "copycopy":
        return H.copy().copy()
    if how == "pickle":
        return pickle.loads(pickle.dumps(H))
    if how == "deepcopy":
        return copy.deepcopy(H)
    return type(H)(H)


def has_nested(spec):
    def nested(a):
        return any(isinstance(v, (list, dict)) for v in a.values())  # {"__t": ...} (a tuple holding a list) is a dict here

    return nested(spec["net"]) or any(nested(n[1]) for n in spec["nodes"]) or any(nested(e[-1]) for e in spec["edges"])


def mutate_nested(H):
    """in-place change of every mutable value reachable (at any depth, also through tuples) from the attributes of H"""
    k = [0]

    def walk(v):
        if isinstance(v, list):
            for x in list(v):
                walk(x)
            v.append("mutated")
            k[0] += 1
        elif isinstance(v, dict):
            for x in list(v.values()):
                walk(x)
            v["mutated"] = 1
            k[0] += 1
        elif isinstance(v, tuple):
            for x in v:
                walk(x)

    tabs = [H.nodes[n] for n in H.nodes] + [H.edges[e] for e in H.edges] + [H._net_attr]
    for a in tabs:
        for v in list(a.values()):
            walk(v)
    return k[0]


def add_auto(H, cls, i):
    if cls == "DH":
        H.add_edge(([900 + i], [950 + i]))
        return 1
    if cls == "SC":
        H.add_simplex([900 + i, 950 + i, 990 + i])
        return 4
    H.add_edge([900 + i, 950 + i])
    return 1


def unordered(o):
    return (o[1], o[3], o[4], o[5])


def run_case(case, ctx):
    cls, how = case["cls"], case["how"]
    ctx.event("class:" + cls)
    ctx.event("how:" + how)
    H = nets.build(case["base"])
    if case.get("awkward"):
        nets.awkward_attr_names(H)
    D = derive(H, how)
    ctx.check(type(D) is type(H), ("equal", how, cls, "class"), repr(type(D)))
    a, b = nets.snap_obs(H), nets.snap_obs(D)
    ctx.check(unordered(a) == unordered(b), ("equal", how, cls, "snapshot"), lambda: "source %r derived %r" % (unordered(a), unordered(b)))
    ctx.check(a[0] == b[0] and a[2] == b[2], ("equal", how, cls, "iteration-order"), lambda: "%r %r vs %r %r" % (a[0], a[2], b[0], b[2]))
    ctx.check(not D.is_frozen, ("equal", how, cls, "derived-is-frozen"), "")
    if ctx.fails:
        return
    mod = {"H": hops, "DH": dhops, "SC": scops}[cls]
    edited, other = (H, D) if case["side"] == "source" else (D, H)
    other_before = nets.snap_deep(other)
    members_before = nets.snap_obs(edited)[3]
    for op in case["ops"]:
        cop = mod.concretise(edited, op)
        try:
            r = mod.apply_real(edited, cop)
            if cls == "DH":
                edited = r
        except Exception:  # noqa: BLE001  (judged by C05)
            ctx.event("op-raised")
    changed = nets.snap_obs(edited)[3] != members_before
    diff = nets.diff_deep(other_before, nets.snap_deep(other))
    ctx.check(not diff, ("independent", how, cls, "edit-of-" + case["side"] + "-visible-in-the-other"), lambda: "components %r after ops %r" % (diff, case["ops"]))
    # nested attribute values reached through the derived network
    if case["nested"] and how != "ctor":
        src_before = nets.snap_deep(H)
        k = mutate_nested(D)
        if k:
            ctx.event("nested-mutated")
        diff = nets.diff_deep(src_before, nets.snap_deep(H))
        ctx.check(not diff, ("independent", how, cls, "nested-mutation-through-derived-visible-in-source"), lambda: "components %r" % (diff,))
    elif case["nested"]:
        # constructor: nested values may be shared, but top-level attribute edits and structure must not leak
        src_before = nets.snap_deep(H)
        for n in list(D.nodes)[:2]:
            D.nodes[n]["__top__"] = 1
        D["__top__"] = 1
        for e in list(D.edges)[:2]:
            D.edges[e]["__top__"] = 1
        diff = nets.diff_deep(src_before, nets.snap_deep(H))
        ctx.check(not diff, ("independent", how, cls, "top-level-attribute-edit-visible-in-source"), lambda: "components %r" % (diff,))
    # both keep assigning fresh edge IDs
    for side, net in (("source", H), ("derived", D)):
        if net.is_frozen:
            continue
        for i in range(case["adds"]):
            before = {e: (m, nets.freeze_val(x)) for e, m, x in ((e, nets.snap_obs(net)[3][e], nets.snap_obs(net)[4][e]) for e in net.edges)}
            want = add_auto(net, cls, i + (0 if side == "source" else 10))
            after_obs = nets.snap_obs(net)
            ok = all(e in after_obs[3] and after_obs[3][e] == m and nets.freeze_val(after_obs[4][e]) == x for e, (m, x) in before.items())
            ctx.check(ok, ("fresh-id", how, cls, side, "existing-edge-overwritten"), lambda: "before %r after %r" % (sorted(map(repr, before)), sorted(map(repr, after_obs[3]))))
            ctx.check(len(after_obs[2]) == len(before) + want, ("fresh-id", how, cls, side, "wrong-number-of-new-ids"), lambda: "%d -> %d, expected +%d" % (len(before), len(after_obs[2]), want))
        for tag, detail in nets.integrity(net)[:2]:
            ctx.fail(("integrity", how, cls, side, tag), detail)
    # a second derivation from the (edited, extended) source must reflect the source as it is now, not as it was the first time
    try:
        D2 = derive(H, how)
    except Exception as e:  # noqa: BLE001
        ctx.fail(("equal", how, cls, "second-derivation-raised", type(e).__name__), repr(e))
        D2 = None
    if D2 is not None:
        a, b = nets.snap_obs(H), nets.snap_obs(D2)
        ctx.check(unordered(a) == unordered(b), ("equal", how, cls, "second-derivation-is-stale"), lambda: "source %r derived %r" % (unordered(a), unordered(b)))
        # ... and it keeps assigning fresh IDs too (the source may by now hold float / numpy / exotic IDs from the history)
        if not D2.is_frozen:
            n0 = len(b[2])
            want = add_auto(D2, cls, 20)
            c = nets.snap_obs(D2)
            ok = all(e in c[3] and c[3][e] == b[3][e] for e in b[3])
            ctx.check(ok and len(c[2]) == n0 + want, ("fresh-id", how, cls, "second-derivation", "existing-edge-overwritten"), lambda: "%d -> %d edges, expected +%d; ids %r" % (n0, len(c[2]), want, sorted(map(repr, c[3]))))
    explicit = any(e[0] is not None for e in case["base"]["edges"])
    ctx.mark((has_nested(case["base"]) or explicit) and changed)
