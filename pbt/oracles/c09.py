"""C09 - structural measures are invariant under relabelling and insertion order (metamorphic)."""
import math
import random

import numpy as np
from hypothesis import strategies as st

import xgi

from .. import nets

PID = "C09"
RULE = (
    "case = hypergraph H (any label kind, multi-edges, singletons, isolated nodes) + a node bijection (permutation of the "
    "same labels / other ints / gapped ints / strings) + an edge-ID bijection (non-identity permutation of 0..m-1 / gapped "
    "ints / strings) + independent shuffles of node insertion order, edge insertion order and member order; H' is rebuilt "
    "through add_node/add_edge. Metamorphic oracle: f(H') equals f(H) pushed through the bijections for ~45 measures "
    "(stats, clustering coefficients, components, path lengths, densities, exact assortativities, simpliciality, maximal, "
    "duplicates, Katz centrality, all matrices through their index maps); a measure that raises on one side must raise the "
    "same exception type on the other. non-trivial = some edge's new ID differs from its position and some node has "
    "degree >= 2; floats compare with rtol 1e-9 / atol 1e-12, NaN == NaN"
)
BUDGET = {"quick": 1200, "thorough": 40000}
ASSUMPTIONS = [
    "simpliciality measures are compared only when the relabelled node labels are mutually orderable (all ints or all strings), as the functions require",
    "randomised estimators (exact=False assortativity, sampled centralities with random initial vectors) are outside the statement",
]

NODE_TARGETS = ["perm", "shift", "gap", "str", "same"]
EDGE_TARGETS = ["perm", "gap", "str", "same"]


@st.composite
def cases(draw, tier):
    kind = draw(nets.kinds)
    spec = draw(nets.net_spec(cls="H", kind=kind, max_edges=7, max_size=4, allow_empty=False, with_attrs=False, ids="auto", min_edges=1))
    keys = st.lists(st.integers(0, 10**6), min_size=8, max_size=8)
    return {"spec": spec, "ntarget": draw(st.sampled_from(NODE_TARGETS)), "etarget": draw(st.sampled_from(EDGE_TARGETS)),
            "nkeys": draw(keys), "ekeys": draw(keys), "norder": draw(keys), "eorder": draw(keys), "morder": draw(keys),
            "uniform": draw(st.integers(0, 4)) == 0}


def strategy(tier):
    return cases(tier)


def perm(keys, n):
    """permutation of range(n) that is a pure function of the drawn integer keys"""
    xs = list(range(n))
    random.Random(repr((list(keys), n))).shuffle(xs)
    return xs


def make_pair(case):
    spec = case["spec"]
    if case["uniform"]:  # make it 3-uniform (dynamical assortativity needs uniform input)
        alph = nets.NODE_KINDS[spec["kind"]]
        edges = []
        for i, e in enumerate(spec["edges"]):
            m = list(dict.fromkeys(e[1]))
            j = 0
            while len(m) < 3:
                x = alph[(i + j) % len(alph)]
                if x not in m:
                    m.append(x)
                j += 1
            edges.append([e[0], m[:3], e[2]])
        spec = dict(spec, edges=edges)
    H = nets.build(spec)
    nodes, edges = list(H.nodes), list(H.edges)
    n, m = len(nodes), len(edges)
    pn = perm(case["nkeys"], n)
    t = case["ntarget"]
    if t == "perm":
        phi_n = {nodes[i]: nodes[pn[i]] for i in range(n)}
    elif t == "shift":
        phi_n = {nodes[i]: 100 + pn[i] for i in range(n)}
    elif t == "gap":
        phi_n = {nodes[i]: 3 * pn[i] * pn[i] - 5 for i in range(n)}
    elif t == "str":
        phi_n = {nodes[i]: "v%d" % pn[i] for i in range(n)}
    else:
        phi_n = {x: x for x in nodes}
    pe = perm(case["ekeys"], m)
    if m > 1 and pe == list(range(m)):
        pe = pe[1:] + pe[:1]
    t = case["etarget"]
    if t == "perm":
        phi_e = {edges[i]: pe[i] for i in range(m)}
    elif t == "gap":
        phi_e = {edges[i]: 2 * pe[i] * pe[i] + 3 for i in range(m)}
    elif t == "str":
        phi_e = {edges[i]: "e%d" % pe[i] for i in range(m)}
    else:
        phi_e = {x: x for x in edges}
    H2 = xgi.Hypergraph()
    for i in perm(case["norder"], n):
        H2.add_node(phi_n[nodes[i]])
    mem = H.edges.members(dtype=dict)
    for j in perm(case["eorder"], m):
        e = edges[j]
        ms = sorted(mem[e], key=repr)
        ms = [ms[i] for i in perm([k + j for k in case["morder"]], len(ms))]
        H2.add_edge([phi_n[x] for x in ms], idx=phi_e[e])
    return H, H2, phi_n, phi_e


def close(a, b):
    if isinstance(a, (list, tuple)) and isinstance(b, (list, tuple)):
        return len(a) == len(b) and all(close(x, y) for x, y in zip(a, b))
    if isinstance(a, (float, np.floating)) or isinstance(b, (float, np.floating)):
        try:
            a, b = float(a), float(b)
        except (TypeError, ValueError):
            return False
        if math.isnan(a) and math.isnan(b):
            return True
        if math.isinf(a) or math.isinf(b):
            return a == b
        return abs(a - b) <= 1e-12 + 1e-9 * max(abs(a), abs(b))
    if isinstance(a, (np.integer,)):
        a = int(a)
    if isinstance(b, (np.integer,)):
        b = int(b)
    return a == b


def dict_close(a, b):
    return set(a) == set(b) and all(close(a[k], b[k]) for k in a)


# each measure: name -> function(H) returning a canonical value; push(value, phi_n, phi_e) maps it into H' labels


def node_dict(f):
    return (lambda H: dict(f(H)), lambda v, pn, pe: {pn[k]: x for k, x in v.items()}, dict_close)


def edge_dict(f):
    return (lambda H: dict(f(H)), lambda v, pn, pe: {pe[k]: x for k, x in v.items()}, dict_close)


def scalar(f):
    return (f, lambda v, pn, pe: v, close)


def matrix(f, rows, cols):
    """f(H) -> (M, d_rows[, d_cols]); canonical value = {(row label, col label): entry} + label sets"""

    def get(H):
        r = f(H)
        M = r[0]
        M = M.toarray() if hasattr(M, "toarray") else np.asarray(M)
        d1 = r[1]
        d2 = r[2] if len(r) > 2 else r[1]
        out = {}
        if M.size:
            for i in range(M.shape[0]):
                for j in range(M.shape[1]):
                    out[(d1[i], d2[j])] = M[i, j]
        return out

    def push(v, pn, pe):
        a = pn if rows == "n" else pe
        b = pn if cols == "n" else pe
        return {(a[i], b[j]): x for (i, j), x in v.items()}

    return (get, push, dict_close)


def partition(f):
    return (lambda H: {frozenset(c) for c in f(H)}, lambda v, pn, pe: {frozenset(pn[x] for x in c) for c in v}, lambda a, b: a == b)


def nested_node_dict(f):
    def get(H):
        return {k: dict(v) for k, v in dict(f(H)).items()}

    def push(v, pn, pe):
        return {pn[k]: {pn[j]: x for j, x in d.items()} for k, d in v.items()}

    def eq(a, b):
        return set(a) == set(b) and all(dict_close(a[k], b[k]) for k in a)

    return (get, push, eq)


def dup_classes(H):
    mem = H.edges.members(dtype=dict)
    cl = {}
    for e, m in mem.items():
        cl.setdefault(frozenset(m), set()).add(e)
    d = set(H.edges.duplicates())
    # class-level statement: exactly k-1 of the k IDs of every class
    return {fs: len(ids & d) == len(ids) - 1 for fs, ids in cl.items()}, len(d)


MEASURES = {
    "nodes.degree": node_dict(lambda H: H.nodes.degree.asdict()),
    "nodes.degree(order=1)": node_dict(lambda H: H.nodes.degree(order=1).asdict()),
    "nodes.degree(order=2)": node_dict(lambda H: H.nodes.degree(order=2).asdict()),
    "nodes.average_neighbor_degree": node_dict(lambda H: H.nodes.average_neighbor_degree.asdict()),
    "nodes.clustering_coefficient": node_dict(lambda H: H.nodes.clustering_coefficient.asdict()),
    "nodes.local_clustering_coefficient": node_dict(lambda H: H.nodes.local_clustering_coefficient.asdict()),
    "nodes.two_node_clustering_coefficient": node_dict(lambda H: H.nodes.two_node_clustering_coefficient.asdict()),
    "edges.size": edge_dict(lambda H: H.edges.size.asdict()),
    "edges.order": edge_dict(lambda H: H.edges.order.asdict()),
    "edges.size(degree=2)": edge_dict(lambda H: H.edges.size(degree=2).asdict()),
    "clustering_coefficient": node_dict(xgi.clustering_coefficient),
    "local_clustering_coefficient": node_dict(xgi.local_clustering_coefficient),
    "two_node_clustering_coefficient(union)": node_dict(lambda H: xgi.two_node_clustering_coefficient(H, kind="union")),
    "two_node_clustering_coefficient(min)": node_dict(lambda H: xgi.two_node_clustering_coefficient(H, kind="min")),
    "two_node_clustering_coefficient(max)": node_dict(lambda H: xgi.two_node_clustering_coefficient(H, kind="max")),
    "connected_components": partition(xgi.connected_components),
    "number_connected_components": scalar(xgi.number_connected_components),
    "is_connected": scalar(xgi.is_connected),
    "largest_connected_component-size": scalar(lambda H: len(xgi.largest_connected_component(H))),
    "shortest_path_length": nested_node_dict(xgi.shortest_path_length),
    "density": scalar(xgi.density),
    "density(order=1)": scalar(lambda H: xgi.density(H, order=1)),
    "density(max_order=2)": scalar(lambda H: xgi.density(H, max_order=2)),
    "density(ignore_singletons)": scalar(lambda H: xgi.density(H, ignore_singletons=True)),
    "incidence_density": scalar(xgi.incidence_density),
    "incidence_density(order=2)": scalar(lambda H: xgi.incidence_density(H, order=2)),
    "incidence_density(max_order=1,ignore_singletons)": scalar(lambda H: xgi.incidence_density(H, max_order=1, ignore_singletons=True)),
    "degree_assortativity(uniform,exact)": scalar(lambda H: xgi.degree_assortativity(H, kind="uniform", exact=True)),
    "degree_assortativity(top-2,exact)": scalar(lambda H: xgi.degree_assortativity(H, kind="top-2", exact=True)),
    "degree_assortativity(top-bottom,exact)": scalar(lambda H: xgi.degree_assortativity(H, kind="top-bottom", exact=True)),
    "dynamical_assortativity": scalar(xgi.dynamical_assortativity),
    "degree_counts": scalar(lambda H: list(xgi.degree_counts(H))),
    "degree_histogram": scalar(lambda H: [list(x) for x in xgi.degree_histogram(H)]),
    "unique_edge_sizes": scalar(lambda H: sorted(xgi.unique_edge_sizes(H))),
    "max_edge_order": scalar(xgi.max_edge_order),
    "is_uniform": scalar(xgi.is_uniform),
    "edges.maximal": (lambda H: set(H.edges.maximal()), lambda v, pn, pe: {pe[e] for e in v}, lambda a, b: a == b),
    "edges.maximal(strict)": (lambda H: set(H.edges.maximal(strict=True)), lambda v, pn, pe: {pe[e] for e in v}, lambda a, b: a == b),
    "edges.duplicates(class-level)": (dup_classes, lambda v, pn, pe: ({frozenset(pn[x] for x in fs): ok for fs, ok in v[0].items()}, v[1]), lambda a, b: a == b),
    "katz_centrality": node_dict(xgi.katz_centrality),
    "incidence_matrix": matrix(lambda H: xgi.incidence_matrix(H, sparse=False, index=True), "n", "e"),
    "incidence_matrix(order=1,sparse)": matrix(lambda H: xgi.incidence_matrix(H, order=1, sparse=True, index=True), "n", "e"),
    "adjacency_matrix": matrix(lambda H: xgi.adjacency_matrix(H, sparse=False, index=True), "n", "n"),
    "adjacency_matrix(weighted,s=2)": matrix(lambda H: xgi.adjacency_matrix(H, sparse=True, s=2, weighted=True, index=True), "n", "n"),
    "adjacency_matrix(order=2)": matrix(lambda H: xgi.adjacency_matrix(H, order=2, sparse=False, index=True), "n", "n"),
    "degree_matrix": (lambda H: (lambda r: {r[1][i]: r[0][i] for i in range(len(r[0]))})(xgi.degree_matrix(H, index=True)), lambda v, pn, pe: {pn[k]: x for k, x in v.items()}, dict_close),
    "laplacian(order=1)": matrix(lambda H: xgi.laplacian(H, order=1, index=True), "n", "n"),
    "laplacian(order=2,rescale)": matrix(lambda H: xgi.laplacian(H, order=2, rescale_per_node=True, index=True), "n", "n"),
    "multiorder_laplacian": matrix(lambda H: xgi.multiorder_laplacian(H, [1, 2], [1, 0.5], index=True), "n", "n"),
    "normalized_hypergraph_laplacian": matrix(lambda H: xgi.normalized_hypergraph_laplacian(H, sparse=False, index=True), "n", "n"),
    "intersection_profile": matrix(lambda H: xgi.intersection_profile(H, sparse=False, index=True), "e", "e"),
    "clique_motif_matrix": matrix(lambda H: xgi.clique_motif_matrix(H, sparse=False, index=True), "n", "n"),
}
# aggregates of the degree and size statistics ("degree and size statistics" of the statement): plain numbers, no IDs involved.
# argmin / argmax / argsort are left out on purpose - with ties their answer legitimately depends on the order of the IDs.
def _agg(stat, fn, *args):
    def get(H):
        view, name = stat.split(".")
        st_ = getattr(getattr(H, view), name)
        v = getattr(st_, fn)(*args)
        return np.asarray(v).tolist() if isinstance(v, (np.ndarray, np.generic)) else v

    return scalar(get)


for _stat in ("nodes.degree", "edges.size", "edges.order", "nodes.average_neighbor_degree"):
    for _fn in ("max", "min", "sum", "mean", "median", "std", "var", "mode", "unique"):
        MEASURES["%s.%s()" % (_stat, _fn)] = _agg(_stat, _fn)
    MEASURES["%s.moment(3)" % _stat] = _agg(_stat, "moment", 3)

SIMPLICIALITY = {
    "edit_simpliciality": scalar(xgi.edit_simpliciality),
    "simplicial_edit_distance": scalar(xgi.simplicial_edit_distance),
    "face_edit_simpliciality": scalar(xgi.face_edit_simpliciality),
    "mean_face_edit_distance": scalar(xgi.mean_face_edit_distance),
    "simplicial_fraction": scalar(xgi.simplicial_fraction),
    "simplicial_fraction(min_size=1)": scalar(lambda H: xgi.simplicial_fraction(H, min_size=1, exclude_min_size=False)),
    "edit_simpliciality(min_size=3)": scalar(lambda H: xgi.edit_simpliciality(H, min_size=3)),
}


def evaluate(get, H):
    try:
        return ("ok", get(H))
    except Exception as e:  # noqa: BLE001
        return ("exc", type(e).__name__, str(e)[:120])


def run_case(case, ctx):
    H, H2, pn, pe = make_pair(case)
    edges = list(H.edges)
    moved = any(pe[e] != i for i, e in enumerate(edges))
    deg2 = any(d >= 2 for d in H.nodes.degree.aslist())
    ctx.event("ntarget:" + case["ntarget"])
    ctx.event("etarget:" + case["etarget"])
    measures = dict(MEASURES)
    has_dups = len(set(map(frozenset, H.edges.members()))) < H.num_edges
    if not has_dups:
        measures.update(SIMPLICIALITY)
    for name, (get, push, eq) in measures.items():
        a = evaluate(get, H)
        b = evaluate(get, H2)
        ctx.subchecks += 1
        if a[0] == "exc" or b[0] == "exc":
            ctx.event("measure-raised")
            ok = a[0] == b[0] == "exc" and a[1] == b[1]
            ctx.check(ok, ("invariance", name, "raises-on-one-labelling-only"), lambda: "original %r relabelled %r (node map %r edge map %r members %r)" % (a, b, pn, pe, H.edges.members(dtype=dict)))
            continue
        try:
            exp = push(a[1], pn, pe)
            ok = eq(exp, b[1])
        except Exception as e:  # noqa: BLE001
            ok, exp = False, "push failed: %r" % (e,)
        ctx.check(ok, ("invariance", name, "value-changed"), lambda: "expected %r got %r (node map %r edge map %r members %r)" % (exp, b[1], pn, pe, H.edges.members(dtype=dict)))
    ctx.mark(moved and deg2)
