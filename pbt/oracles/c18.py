"""C18 - frozen networks cannot be structurally modified (mutators discovered by probing)."""
import copy
import inspect
import itertools

import numpy as np
import random

from hypothesis import strategies as st

import xgi
from xgi.exception import XGIError

from .. import nets

PID = "C18"
RULE = (
    "case = (class, network spec, candidate, eight integer picks). Candidates are found by introspection: every public "
    "method of the three classes (inherited ones and deprecated aliases included) and every public library function "
    "with an in_place parameter (called with in_place=True). Arguments are synthesised from a registry keyed by parameter "
    "name, identically for both phases. Phase 1 calls the candidate on an unfrozen copy; if the structural snapshot (nodes, "
    "edges, members) changes, this (candidate, arguments) pair is a structural mutation. Phase 2 repeats the same call on a "
    "frozen build of the same network and on subhypergraph(H) - with the defaults or with drawn node / edge selections and keep_isolates (sub-networks, edge-less results included; mutation is then decided on an unfrozen copy of the result): it must raise XGIError and leave the network unchanged. Also: "
    "is_frozen is False before, True after freeze()/on subhypergraph results, False on copies; a copy of a frozen network "
    "equals it and accepts the mutation. non-trivial = phase 1 observed a structural change for the pair"
)
BUDGET = {"quick": 6000, "thorough": 120000}
ASSUMPTIONS = [
    "pairs that are no-ops on the unfrozen network (update() with nothing to add, a merge without duplicates, ...) are not required to raise",
    "attribute setters are not structural and are not required to raise on a frozen network",
    "the next automatic edge ID is not part of 'unchanged' here (a refused merge may have consumed an ID)",
]

CLASSES = {"H": xgi.Hypergraph, "DH": xgi.DiHypergraph, "SC": xgi.SimplicialComplex}
SKIP = {"freeze", "copy", "dual", "has_simplex"}  # not candidates: freeze itself and pure constructors / queries


def method_candidates():
    out = {}
    for key, cls in CLASSES.items():
        for n in dir(cls):
            if n.startswith("_") or n in SKIP:
                continue
            m = getattr(cls, n)
            if callable(m) and not isinstance(m, property):
                out[(key, "method:" + n)] = n
    return out


def function_candidates():
    out = {}
    for n in sorted(dir(xgi)):
        f = getattr(xgi, n)
        if n.startswith("_") or inspect.isclass(f) or inspect.ismodule(f) or not callable(f):
            continue
        try:
            ps = inspect.signature(f).parameters
        except (TypeError, ValueError):
            continue
        if "in_place" in ps:
            for key in CLASSES:
                out[(key, "function:" + n)] = f
    return out


RANDOMISED = {"random_edge_shuffle"}


# library functions that fill a network handed in as `create_using` ("if hypergraph instance, then cleared before populated"):
# with a frozen instance they are in-place functions in the sense of the statement. name -> positional data arguments
def _cu_data():
    import pandas as pd

    return {
        "empty_hypergraph": (), "empty_dihypergraph": (), "empty_simplicial_complex": (), "trivial_hypergraph": (3,),
        "from_hyperedge_list": ([[90, 91], [91, 92, 93]],), "from_hyperedge_dict": ({"p": [90, 91], "q": [91, 92]},),
        "from_simplex_dict": ({"p": [90, 91]},), "from_incidence_matrix": (np.array([[1, 0], [1, 1], [0, 1]]),),
        "from_bipartite_pandas_dataframe": (pd.DataFrame([[90, "p"], [91, "p"], [91, "q"]]),),
        "to_hypergraph": ([[90, 91], [91, 92]],), "to_dihypergraph": ([([90], [91]), ([91], [92, 93])],), "to_simplicial_complex": ([[90, 91, 92]],),
        "parse_edgelist": (["90 91", "91 92 93"],), "parse_bipartite_edgelist": (["90 p", "91 p", "91 q"],),
    }


def cu_candidates():
    out = {}
    for n in _cu_data():
        f = getattr(xgi, n, None)
        if f is None:
            continue
        try:
            if "create_using" not in inspect.signature(f).parameters:
                continue
        except (TypeError, ValueError):
            continue
        for key in CLASSES:
            out[(key, "cu:" + n)] = f
    return out
METHODS = method_candidates()
FUNCTIONS = function_candidates()
CU = cu_candidates()
FUNCTIONS.update(CU)
CANDS = sorted(list(METHODS) + list(FUNCTIONS))


@st.composite
def cases(draw, tier):
    key, cand = draw(st.sampled_from(CANDS))
    spec = draw(nets.net_spec(cls=key, max_edges=5, min_edges=1, allow_empty=False, with_attrs=True))
    if key != "SC" and spec["edges"] and draw(st.booleans()):  # a repeated edge (merging needs one)
        e = spec["edges"][0]
        spec["edges"].append([None] + [list(x) if isinstance(x, list) else x for x in e[1:-1]] + [{}])
    idx = st.one_of(st.none(), st.lists(st.integers(0, 9), max_size=6))
    # arguments of subhypergraph: the whole network (defaults) or drawn selections (by position; may be empty, may select nothing that survives)
    sub = draw(st.one_of(st.none(), st.fixed_dictionaries({"nodes": idx, "edges": idx, "keep_isolates": st.booleans()})))
    return {"cls": key, "cand": cand, "spec": spec, "picks": draw(st.lists(st.integers(0, 1000), min_size=8, max_size=8)),
            "via": draw(st.sampled_from(["freeze", "freeze", "subhypergraph"])), "sub": sub}


def strategy(tier):
    return cases(tier)


# --------------------------------------------------------------------------------------------


def synth(H, key, name, sig, picks):
    """keyword arguments for the candidate, a pure function of (network, picks); None = not synthesisable"""
    nodes, edges = list(H.nodes), list(H.edges)
    r = random.Random(repr(picks))
    fresh_n = "zz_new" if nodes and isinstance(nodes[0], str) else 9000 + picks[0] % 7

    def node(new_ok=True):
        if nodes and (not new_ok or r.random() < 0.7):
            return r.choice(nodes)
        return fresh_n

    def edge(new_ok=True):
        if edges and (not new_ok or r.random() < 0.7):
            return r.choice(edges)
        return "new_edge_%d" % (picks[1] % 5)

    def members():
        k = r.randint(1, 3)
        return [node() for _ in range(k)]

    def dimembers():
        return ([node() for _ in range(r.randint(0, 2))], [node() for _ in range(r.randint(1, 2))])

    def mem():
        return dimembers() if key == "DH" else members()

    def ebunch_add():
        fmt = r.choice([1, 2, 3, 4, 5])
        k = r.randint(1, 2)
        if fmt == 1:
            return [mem() for _ in range(k)]
        if fmt == 2:
            return [(mem(), "nb%d" % i) for i in range(k)]
        if fmt == 3:
            return [(mem(), {"tag": 1}) for _ in range(k)]
        if fmt == 4:
            return [(mem(), "nb%d" % i, {"tag": 1}) for i in range(k)]
        return {"nb%d" % i: mem() for i in range(k)}

    kw = {}
    for p in list(sig.parameters.values()):
        if p.name == "self" or p.kind in (p.VAR_POSITIONAL, p.VAR_KEYWORD):
            continue
        n = p.name
        required = p.default is inspect.Parameter.empty
        if n in ("members", "edge") and name in ("add_edge", "add_simplex"):
            v = mem()
        elif n in ("node",):
            v = node()
        elif n == "n":
            v = node(new_ok=False)
        elif n == "idx":
            v = (edge(new_ok=False) if name.startswith("remove") else r.choice([None, "explicit_new", edge()]))
        elif n == "edge":
            v = edge()
        elif n in ("ebunch_to_add",):
            v = ebunch_add()
        elif n == "ebunch" and name.startswith("add_weighted"):
            v = [tuple(members()) + (0.5,)]
        elif n == "ebunch":
            v = [edge(new_ok=False) for _ in range(r.randint(1, 2))] if edges else []
        elif n == "nodes_for_adding":
            v = [node() for _ in range(2)] + [fresh_n]
        elif n == "nodes" and name == "update":
            v = [fresh_n]
        elif n == "nodes":
            v = [node(new_ok=False) for _ in range(r.randint(1, 2))] if nodes else []
        elif n == "edges" and name == "update":
            v = [members()] if key != "DH" else None
        elif n in ("strong", "remove_empty", "remove_net_attr", "isolates", "singletons", "multiedges", "connected", "relabel"):
            v = bool(r.randint(0, 1))
        elif n == "in_place":
            v = True
        elif n == "direction":
            v = r.choice(["in", "out"])
        elif n in ("e_id1", "e_id2"):
            v = edge(new_ok=False)
        elif n in ("n_id1", "n_id2"):
            v = node(new_ok=False)
        elif n == "rename":
            v = r.choice(["first", "tuple", "new"])
        elif n == "merge_rule":
            v = r.choice(["first", "union", "intersection"])
        elif n == "multiplicity":
            v = r.choice([None, "mult"])
        elif n == "max_order":
            v = r.choice([None, 1, 2])
        elif n == "weight":
            v = "weight"
        elif n == "values":
            v = {node(): {"c": 1}} if "node" in name else {edge(): {"c": 1}}
        elif n == "name":
            v = None
        elif n == "label_attribute":
            v = "label"
        elif n in ("H", "net", "S", "SC"):
            continue
        elif required:
            return None
        else:
            continue
        kw[n] = v
    # make a double edge swap / node removal from edge likely to be admissible
    if name == "double_edge_swap" and len(edges) >= 2:
        e1, e2 = r.sample(edges, 2)
        m1, m2 = list(H.edges.members(e1)), list(H.edges.members(e2))
        if m1 and m2:
            kw.update(e_id1=e1, e_id2=e2, n_id1=r.choice(m1), n_id2=r.choice(m2))
    if name == "remove_node_from_edge" and edges:
        e = r.choice(edges)
        if key == "DH":
            t, h = H.edges.dimembers(e)
            d = r.choice(["in", "out"])
            side = list(t if d == "in" else h)
            if side:
                kw.update(edge=e, node=r.choice(side), direction=d)
        else:
            m = list(H.edges.members(e))
            if m:
                kw.update(edge=e, node=r.choice(m))
    if name == "add_weighted_simplices_from" or name == "add_weighted_edges_from":
        kw[[p for p in sig.parameters if p.startswith("ebunch")][0]] = [tuple(members()) + (0.5,)]
    return kw


def informative_signature(sig, name):
    """A wrapper written as `def alias(self, *args, **kwargs)` hides the parameter names the argument registry is
    keyed by: borrow the signature of the same-named method of another class (Hypergraph first) in that case."""
    named = [p for p in sig.parameters.values() if p.name != "self" and p.kind not in (p.VAR_POSITIONAL, p.VAR_KEYWORD)]
    has_var = any(p.kind in (p.VAR_POSITIONAL, p.VAR_KEYWORD) for p in sig.parameters.values())
    if named or not has_var:
        return sig
    for cls in (xgi.Hypergraph, xgi.DiHypergraph, xgi.SimplicialComplex):
        m = cls.__dict__.get(name)
        if m is not None and callable(m):
            try:
                s2 = inspect.signature(m)
            except (TypeError, ValueError):
                continue
            if any(p.name != "self" and p.kind not in (p.VAR_POSITIONAL, p.VAR_KEYWORD) for p in s2.parameters.values()):
                return s2
    return sig


def call(H, key, cand, kw, picks=(0,)):
    # the same global RNG state for every phase (random_edge_shuffle draws from `random`)
    random.seed(repr(list(picks)))
    if cand.startswith("method:"):
        return getattr(H, cand[7:])(**kw)
    f = FUNCTIONS[(key, cand)]
    if cand.startswith("cu:"):
        return f(*copy.deepcopy(_cu_data()[cand[3:]]), create_using=H)
    return f(H, **kw)


def state(H):
    d = nets.snap_deep(H)
    d.pop("uid")
    return d


def run_case(case, ctx):
    key, cand = case["cls"], case["cand"]
    name = cand.split(":", 1)[1]
    H = nets.build(case["spec"])
    ctx.check(H.is_frozen is False, ("is_frozen", key, "true-before-freeze"), "")
    target = getattr(CLASSES[key], name) if cand.startswith("method:") else FUNCTIONS[(key, cand)]
    try:
        sig = inspect.signature(target)
    except (TypeError, ValueError):
        ctx.event("uncovered:" + cand)
        return
    sig = informative_signature(sig, name)
    kw = {} if cand.startswith("cu:") else synth(H, key, name, sig, case["picks"])
    if kw is None:
        ctx.event("uncovered:" + cand)
        return
    # ---- phase 1: unfrozen copy
    U = nets.build(case["spec"])
    before = nets.structure(U)
    try:
        call(U, key, cand, kw, case["picks"])
        p1 = "returned"
    except Exception:  # noqa: BLE001
        p1 = "raised"
    mutates = nets.structure(U) != before
    ctx.event(("mutator:" if mutates else "no-change:") + key + "." + name)
    # ---- phase 2: frozen network
    if case["via"] == "subhypergraph":
        try:
            src = nets.build(case["spec"])
            sub = case.get("sub")
            if sub is None:
                F = xgi.subhypergraph(src)
            else:
                ns, es = list(src.nodes), list(src.edges)
                sel_n = None if sub["nodes"] is None or not ns else [ns[i % len(ns)] for i in sub["nodes"]]
                sel_e = None if sub["edges"] is None or not es else [es[i % len(es)] for i in sub["edges"]]
                F = xgi.subhypergraph(src, nodes=sel_n, edges=sel_e, keep_isolates=sub["keep_isolates"])
                ctx.event("subhypergraph-with-arguments" + (":edgeless" if F.num_edges == 0 else ""))
        except Exception:  # noqa: BLE001  (subhypergraph does not support this class/network: counted)
            ctx.event("subhypergraph-unavailable:" + key)
            F = None
        if F is not None and nets.structure(F) != before:
            # a proper sub-network: whether the pair mutates is decided on an unfrozen equal network (its copy, rebuilt if the copy is refused)
            try:
                U = F.copy()
                if U.is_frozen:
                    raise XGIError("copy is frozen")
            except Exception:  # noqa: BLE001
                ctx.event("subhypergraph-differs")
                F = None
            if F is not None:
                before = nets.structure(U)
                kwu = {} if cand.startswith("cu:") else synth(U, key, name, sig, case["picks"])
                if kwu is None:
                    return
                kw = kwu
                try:
                    call(U, key, cand, kwu, case["picks"])
                    p1 = "returned"
                except Exception:  # noqa: BLE001
                    p1 = "raised"
                mutates = nets.structure(U) != before
                ctx.event("sub-" + ("mutator:" if mutates else "no-change:") + key + "." + name)
    else:
        F = nets.build(case["spec"])
        ctx.check(F.is_frozen is False, ("is_frozen", key, "true-before-freeze"), "")  # read once before freezing: the answer must not stick
        F.freeze()
    if F is None:
        return
    ctx.check(F.is_frozen is True, ("is_frozen", key, case["via"], "false-on-frozen"), "")
    fb = state(F)
    kw2 = {} if cand.startswith("cu:") else (synth(F, key, name, sig, case["picks"]) if case["via"] == "subhypergraph" else synth(H, key, name, sig, case["picks"]))
    exc = None
    try:
        call(F, key, cand, kw2, case["picks"])
    except Exception as e:  # noqa: BLE001
        exc = e
    fa = state(F)
    if mutates:
        ctx.check(isinstance(exc, XGIError), ("frozen", key + "." + name, "structural-mutator-did-not-raise-XGIError", case["via"]), lambda: "args %r: %r (phase 1 %s)" % (kw, exc, p1))
        diff = nets.diff_deep(fb, fa)
        ctx.check(not diff, ("frozen", key + "." + name, "frozen-network-changed", case["via"]), lambda: "args %r changed %r" % (kw, diff))
        ctx.check(F.is_frozen is True, ("is_frozen", key, "lost-after-refused-call"), "")
    else:
        # whatever happened, the structure of a frozen network never changes
        ctx.check(nets.structure(F) == before, ("frozen", key + "." + name, "frozen-structure-changed-by-non-mutating-pair", case["via"]), lambda: "args %r" % (kw,))
    # ---- cleanup: every combination of its flags (the in-place steps refuse one by one, so a single combination says little)
    if name == "cleanup" and cand.startswith("method:"):
        flags = [q for q in sig.parameters if q not in ("self", "in_place")]
        for combo in itertools.product((False, True), repeat=len(flags)):
            kwc = dict(zip(flags, combo), in_place=True)
            U2 = nets.build(case["spec"])
            b2 = nets.structure(U2)
            try:
                U2.cleanup(**kwc)
            except Exception:  # noqa: BLE001
                pass
            mut2 = nets.structure(U2) != b2
            F2 = nets.build(case["spec"])
            F2.freeze()
            f0 = state(F2)
            e2 = None
            try:
                F2.cleanup(**kwc)
            except Exception as e:  # noqa: BLE001
                e2 = e
            d2 = nets.diff_deep(f0, state(F2))
            ctx.check(not d2, ("frozen", key + ".cleanup", "frozen-network-changed", "flag-sweep"), lambda: "flags %r changed %r" % (kwc, d2))
            if mut2:
                ctx.check(isinstance(e2, XGIError), ("frozen", key + ".cleanup", "structural-mutator-did-not-raise-XGIError", "flag-sweep"), lambda: "flags %r: %r" % (kwc, e2))
    # ---- copy of a frozen network: equal, unfrozen, editable
    try:
        Cp = F.copy()
    except Exception as e:  # noqa: BLE001
        ctx.fail(("copy-of-frozen", key, "copy-raised", type(e).__name__), repr(e))
        return
    ctx.check(Cp.is_frozen is False, ("copy-of-frozen", key, "copy-is-frozen"), "")
    o1, o2 = nets.snap_obs(Cp), nets.snap_obs(F)
    ctx.check((o1[1], o1[3], o1[4], o1[5]) == (o2[1], o2[3], o2[4], o2[5]), ("copy-of-frozen", key, "copy-differs"), "")
    if mutates and case["via"] == "freeze":
        cb = nets.structure(Cp)
        try:
            call(Cp, key, cand, {} if cand.startswith("cu:") else synth(H, key, name, sig, case["picks"]), case["picks"])
        except Exception as e:  # noqa: BLE001
            ctx.check(p1 == "raised", ("copy-of-frozen", key + "." + name, "copy-refuses-the-mutation"), lambda: "%r" % (e,))
        # a randomised rewiring may be the identity on one of two equal networks and not on the other (set iteration order differs
        # between a built network and its copy), so "the copy changed" is only demanded of deterministic candidates
        if name not in RANDOMISED:
            ctx.check(nets.structure(Cp) != cb, ("copy-of-frozen", key + "." + name, "copy-not-editable"), lambda: "args %r" % (kw,))
    ctx.mark(mutates)


def summarise(events):
    mut = sorted({k[8:] for k in events if k.startswith("mutator:")})
    noch = sorted({k[10:] for k in events if k.startswith("no-change:")} - set(mut))
    return {"candidates": len(CANDS), "structural_mutators_discovered": mut, "candidates_never_observed_mutating": noch,
            "uncovered_candidates": sorted({k[10:] for k in events if k.startswith("uncovered:")})}
