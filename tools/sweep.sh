#!/bin/sh
# tools/sweep.sh <tier> <seed>...   runs every claimed check at the given seeds; prints one line per run and a summary of non-zero exits
tier="$1"; shift
cd "$(dirname "$0")/.."
bad=0
for seed in "$@"; do
  for p in 01 02 03 04 05 06 07 08 09 10 11 12 13 14 15 16 17 18 19 20; do
    out=$(VERIF_SEED=$seed ./check C$p --tier "$tier" 2>&1); rc=$?
    echo "seed=$seed rc=$rc $(echo "$out" | grep -E '^C[0-9]+ tier' | tail -1)"
    if [ $rc -ne 0 ]; then bad=$((bad+1)); echo "$out" | grep -E "VIOLATION|bucket=|HARNESS|Error" | head -8; fi
  done
done
echo "non-zero exits: $bad"
