#!/bin/sh
# tools/eval_ab.sh <worktree with mutant_{A,B}.diff> <Cxx> [more checks]  - runs the given checks against each of the two changes
wt="$1"; shift
for v in A B; do
  [ -f "$wt/mutant_$v.diff" ] || { echo "== $v: no diff"; continue; }
  echo "=== $(basename $wt) $v: $(grep '^+++ ' $wt/mutant_$v.diff | cut -c7- | tr '\n' ' ')"
  "$(dirname "$0")/try_mutant.sh" "$wt/mutant_$v.diff" quick "$@" 2>&1 | grep -E "DETECTED|bucket=|rc=|patch failed|harness error" | cut -c1-230
done
