#!/venv/bin/python
"""tools/audit_params.py - for every `xgi.<function>(` named in an oracle module, list the parameters of that function's
signature that the module never mentions: arguments that are never drawn are regions no generated case can reach."""
import glob
import inspect
import os
import re
import sys

ROOT = os.path.dirname(os.path.dirname(os.path.abspath(__file__)))
sys.path[:0] = [ROOT, os.environ.get("VERIF_REPO", "/repo")]
import xgi  # noqa: E402

for f in sorted(glob.glob(os.path.join(ROOT, "pbt", "oracles", "c*.py"))):
    src = open(f).read()
    out = []
    for n in sorted(set(re.findall(r"xgi\.([a-zA-Z_][a-zA-Z0-9_]*)\(", src))):
        fn = getattr(xgi, n, None)
        if fn is None or inspect.isclass(fn):
            continue
        try:
            sig = inspect.signature(fn)
        except (TypeError, ValueError):
            continue
        miss = [p for p in list(sig.parameters)[1:] if p not in ("seed", "kwargs", "args") and not re.search(r"\b%s\b" % re.escape(p), src)]
        if miss:
            out.append("%s: %s" % (n, ",".join(miss)))
    print(os.path.basename(f), "|", "; ".join(out))
