#!/bin/sh
# tools/confirm_seeded.sh <seed-id> <dir with mutant.diff demo.py meta.txt> <property>
# Confirms a sub-agent's breaking change in a FRESH scratch worktree of /repo (outside /repo and /verif):
#   patch applies to HEAD; pinned suite still passes all 494 stable tests with it; demo fails with it and passes without it.
# On success stores seeded/<seed-id>/{patch.diff,demo.py,meta.json}.  The scratch worktree is removed in every case.
id="$1"; src="$2"; prop="$3"
here="$(cd "$(dirname "$0")/.." && pwd)"
wt=$(mktemp -d /tmp/confirm.XXXXXX); rmdir "$wt"
git -C /repo worktree add -q --detach "$wt" HEAD || exit 2
cleanup() { git -C /repo worktree remove --force "$wt" 2>/dev/null; rm -rf "$wt"; }
cp "$src/demo.py" "$wt/demo.py"
( cd "$wt" && PYTHONPATH="$wt" MPLBACKEND=Agg /venv/bin/python demo.py >/dev/null 2>&1 ); without=$?
( cd "$wt" && git apply "$src/mutant.diff" ) || { echo "patch does not apply"; cleanup; exit 2; }
( cd "$wt" && PYTHONPATH="$wt" MPLBACKEND=Agg /venv/bin/python demo.py >"$wt.demo.out" 2>&1 ); with=$?
# the pinned suite has one randomly flaky pair (tests/drawing/test_draw.py::test_issue_515 draws an unseeded layout and,
# when it overflows, makes the draw doctest fail too) - also on the unchanged tree; retry up to 4 times for a clean run
for attempt in 1 2 3 4; do
  suite=$("$here/tools/baseline.py" "$wt" 2>&1); suite_rc=$?
  [ $suite_rc -eq 0 ] && break
  echo "  suite attempt $attempt: $(echo "$suite" | grep MISSING | tr '\n' ' ' | cut -c1-200)"
done
echo "demo without change: exit $without; with change: exit $with; suite: $(echo "$suite" | head -2 | tr '\n' ' ') rc=$suite_rc"
if [ $without -eq 0 ] && [ $with -ne 0 ] && [ $suite_rc -eq 0 ]; then
  mkdir -p "$here/seeded/$id"
  cp "$src/mutant.diff" "$here/seeded/$id/patch.diff"; cp "$src/demo.py" "$here/seeded/$id/demo.py"
  /venv/bin/python - "$id" "$prop" "$src" "$here" "$(tail -3 "$wt.demo.out" | tr '\n' ' ' | cut -c1-300)" "$(echo "$suite" | head -1)" <<'PY'
import json, sys
sid, prop, src, here, demo_out, suite = sys.argv[1:7]
meta = {"id": sid, "breaks_property": prop, "written_by": "independent sub-agent given only the property text and a scratch worktree",
        "needs_to_manifest": open(src + "/meta.txt").read().strip(),
        "confirmed": {"how": "tools/confirm_seeded.sh: fresh scratch worktree of /repo HEAD; patch applied with git apply; pinned suite compared with BASELINE.json stable_pass; demo.py run without and with the patch",
                      "suite_with_change": suite, "stable_pass_all_passing": True, "demo_exit_without_change": 0, "demo_with_change": demo_out}}
json.dump(meta, open("%s/seeded/%s/meta.json" % (here, sid), "w"), indent=1)
PY
  echo "stored seeded/$id"
else
  echo "NOT CONFIRMED"; tail -5 "$wt.demo.out"
fi
rm -f "$wt.demo.out"
cleanup
