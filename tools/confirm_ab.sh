#!/bin/sh
# tools/confirm_ab.sh <worktree> <A|B> <seed-id> <Cxx>   - confirm_seeded.sh for one of the two changes of a round-5 sub-agent
wt="$1"; v="$2"; id="$3"; prop="$4"
d=$(mktemp -d /tmp/confirm_src.XXXXXX)
cp "$wt/mutant_$v.diff" "$d/mutant.diff"; cp "$wt/demo_$v.py" "$d/demo.py"; cp "$wt/meta_$v.txt" "$d/meta.txt"
"$(dirname "$0")/confirm_seeded.sh" "$id" "$d" "$prop" 2>&1 | tail -2
rm -rf "$d"
