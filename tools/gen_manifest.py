#!/usr/bin/env python3
"""Regenerates /verif/MANIFEST.json from the table below (only properties whose oracle module exists are claimed)."""
import json, os, sys
ROOT = os.path.dirname(os.path.dirname(os.path.abspath(__file__)))
sys.path.insert(0, ROOT)

CHECKS = {
 # id: (technique, level text, level note, design ref)
 "C01": ("Hypothesis-generated edit histories (JSON op lists) against an incidence-integrity invariant checked after every op",
         "Exploration: thousands of generated edit histories over the full Hypergraph mutator alphabet, the two-way incidence / attribute-record invariant evaluated on every prefix whether the call returned or raised. Random search cannot show absence; the evidence reports the op-class histogram.",
         "Trusts the public views to report what is stored (cross-checked white-box against the internal dict key sets); label domain as in DESIGN 2.8.", "DESIGN.md#C01"),
 "C02": ("Hypothesis-generated DiHypergraph edit histories against the directed (tail/out, head/in) integrity invariant after every op",
         "Exploration: generated histories over the DiHypergraph mutator alphabet (all bulk formats, both directions, weak/strong removal, overlapping tail/head); directed two-way incidence, dangling IDs, attribute records and all directed degree/size stats checked on every prefix.",
         "Same trust base as C01; tuple edge IDs are outside the domain (format ambiguity).", "DESIGN.md#C02"),
 "C03": ("Hypothesis-generated SimplicialComplex histories against closure / no-duplicate / exact-coface-removal / max_order / has_simplex invariants after every op",
         "Exploration: generated histories over the complex's own mutators with simplices up to 6 nodes; the closure check enumerates every subset of every simplex after every step, removal is compared with the exact coface set, has_simplex with brute-force membership.",
         "Closure judged for subsets of size >= 2; inherited non-simplicial Hypergraph mutators are outside the statement.", "DESIGN.md#C03"),
 "C04": ("Hypothesis-generated (provenance builder x base network x addition history) cases; before/after snapshot oracle plus model-predicted number of new IDs",
         "Exploration over a registry of ~100 ways to obtain a network (every constructor input type, from_*/read_* function, generator, copy/pickle, relabelling, derived networks) crossed with generated addition histories; around every addition all old IDs must keep members and attributes and the count of new IDs must equal what the reference model adds. The registry is audited against introspection and gaps are listed in the evidence.",
         "New public builders are seen by the audit but only exercised once registered; expected counts come from the C05 models.", "DESIGN.md#C04"),
 "C06": ("Hypothesis-generated (network, stat arguments, filter, edit history) cases; view and stat objects created once and re-read after every edit, compared with brute-force recomputation and with each other",
         "Exploration: for three classes, ~30 stat objects and both views are held across a generated edit history; after every edit each output form (asdict, aslist, asnumpy, aspandas, multi, stat[id]) is compared with the others, with view order and with values recomputed from members()/memberships(); filters, neighbours, lookup, duplicates, isolates, singletons, empty and maximal are compared with their set definitions.",
         "members()/memberships() are the trusted primitives (their consistency is C01/C02); clustering-valued stats are only checked for mutual consistency here (their values belong to C09/C14).", "DESIGN.md#C06"),
 "C07": ("Hypothesis-generated (network with nested attributes, derivation, edited side, edit history) cases; equality oracle + deep-snapshot non-interference oracle + fresh-ID oracle",
         "Exploration: copy / copy-of-copy / pickle / deepcopy / same-class constructor of generated networks of the three classes; equality of observable snapshots, then a generated edit history on one side and in-place mutation of nested attribute values must leave the other side's deep snapshot (members, memberships, attributes, next automatic ID) unchanged; both sides then add edges with automatic IDs.",
         "Nested-value independence is only claimed for copy() (and holds trivially for pickle); the constructor is checked for structural and top-level attribute independence.", "DESIGN.md#C07"),
 "C08": ("Introspection-built callable list x Hypothesis-generated networks and argument picks; deep before/after snapshot oracle; plus an enumerated sweep of every callable on fixed networks",
         "Exploration over programs x inputs: ~200 read-only callables found by introspection (public functions taking a network, all stats through the views in every output form, public view methods, non-in-place class methods) are called with synthesised arguments on generated networks; the deep snapshot (order, members, memberships, container types, deep-copied attributes, frozen flag, next automatic ID) must be identical afterwards whether the call returned or raised. Containers handed out by accessors are scribbled on to expose leaked internals. Every callable is also swept on fixed networks, and per-callable returned/raised counts and never-returning callables are reported.",
         "New public callables are picked up automatically but only exercised if their required parameters are in the name-keyed argument registry (uncovered ones are listed). Aliasing between a returned network and the input is not probed (subhypergraph documents itself as a view).", "DESIGN.md#C08"),
 "C09": ("Metamorphic testing: Hypothesis-generated hypergraph + node/edge-ID bijections + insertion-order shuffles; f(relabelled) must equal f(original) pushed through the bijections",
         "Exploration with a metamorphic oracle over ~60 measures (stats, clustering coefficients, components, path lengths, densities, exact assortativities, simpliciality, maximal/duplicates, Katz centrality, every matrix through its index maps); a measure raising on one labelling only is a violation. Needs no reference implementation, so it reaches IDs that are permuted, gapped or strings, which the suite's fixtures never use.",
         "Float comparison rtol 1e-9; randomised estimators and measures documented to need 0..n-1 labels (line_vector_centrality) are outside the statement.", "DESIGN.md#C09"),
 "C10": ("Round-trip testing: Hypothesis-generated networks of three classes through every converter pair; inverse-function oracle on incidences, labels, order, attributes and class",
         "Exploration with round-trip oracles: hyperedge list/dict, bipartite edge list, labelled/positional incidence matrix, bipartite graph (index maps, shuffled vertex insertion order and edge orientation), dataframe, standard hypergraph dict, HIF dict, and the class-to-class constructors, each compared on exactly what the statement promises for that representation.",
         "Standard-dict casts exercised on homogeneous int or str labels; hyperedge-list round trip only without empty edges (see assumptions in the evidence).", "DESIGN.md#C10"),
 "C11": ("Round-trip testing through real files in a temp dir: Hypothesis-generated networks, delimiters, casts, degenerate matrix shapes and collections; write-then-read oracle",
         "Exploration with write/read round trips: HIF for three classes (class, isolated nodes, empty edges, tail/head, three attribute levels), JSON for undirected hypergraphs, HIF/JSON collections (list and dict), and the edge-list, bipartite (also dual) and incidence-matrix text formats for every single-character delimiter and the documented casts, including 1x1, 1xm and nx1 matrices.",
         "Text formats exercised without empty edges and with labels free of whitespace/delimiter/comment characters; only complete write-then-read cycles.", "DESIGN.md#C11"),
 "C12": ("Differential testing against brute-force recomputation from members(): Hypothesis-generated hypergraphs x the full option grid of every matrix function, entrywise comparison through the index maps",
         "Exploration: for each generated hypergraph the whole grid order x sparse x s x weighted x rescale_per_node is evaluated and every matrix entry is compared with its textbook definition computed by the harness; symmetry, zero diagonal, zero row sums, PSD and sparse==dense are checked. One recorded known finding (K1, weighted normalised Laplacian) is reported as KNOWN-FINDING and any other deviation of that function is still a violation.",
         "Floating-point tolerance 1e-9; degenerate shapes as listed in the evidence assumptions.", "DESIGN.md#C12"),
 "C13": ("Exhaustive enumeration of all simplicial complexes on <= 4 vertices x orientation assignments, plus Hypothesis-generated labelled complexes; algebraic oracle B_k B_{k+1} = 0 and face-incidence of every column",
         "Small-scope exhaustive search plus random exploration: all 126 complexes on at most four vertices (with/without single-node simplices) under the default and sampled (thorough: all) orientation assignments, and generated complexes with negative, float, string and mixed labels and explicit simplex IDs; integer-exact check of the column structure and of the chain-complex identity, Hodge Laplacians symmetric PSD, kernel of L_0 vs components counted by the harness.",
         "Exhaustive only for <= 4 vertices; all orientation assignments only in the thorough tier.", "DESIGN.md#C13"),
 "C14": ("Differential testing against networkx on expansion graphs built by the harness from members(); Hypothesis-generated hypergraphs x s x weights x subset_types",
         "Exploration with an independent reference: the node-edge bipartite graph and the clique expansion are built by the harness and handed to networkx; components, connectivity, largest/per-node component, all-pairs and single-source path lengths, clustering, projection graph, s-line graph with weights, bipartite graph (directed too) and the encapsulation DAG are compared with what their definitions prescribe.",
         "networkx is trusted; 'empirical' DAG judged by a sandwich (order-dependent filter); empty edges excluded where undefined.", "DESIGN.md#C14"),
 "C15": ("Differential testing against exhaustive enumeration: Hypothesis-generated hypergraphs built around overlapping maximal faces x min_size x exclude_min_size x normalize",
         "Exploration with a slower obviously-correct reference: for each generated hypergraph the harness enumerates every subset of every maximal edge and recomputes the edit distance (as a set of distinct missing node sets), the simplicial fraction and the mean face edit distance; range [0,1]-or-NaN and the value 1 on downward-closed inputs are checked. The generator is steered to the redundant-missing-face branch (two maximal faces sharing a missing face) and the evidence counts how often it is reached.",
         "Normalised edit distance compared with the implementation's documented normalisation; the un-normalised count is the independent statement.", "DESIGN.md#C15"),
 "C16": ("Hypothesis-generated (generator, bounded parameter tuple, seed) cases with per-generator validity predicates; exhaustive comparison of the index-to-edge decodings with itertools",
         "Exploration over bounded parameter grids and seeds for 21 generators with a validity predicate per generator (node set, allowed sizes, no repeated edges, p=0/p=1 extremes, counts, degree bounds, closure, exact clique sets), since many outputs are correct for one parameter tuple; the three skip-sampling decodings are enumerated exhaustively for n <= 7, m <= n and block triples <= 4.",
         "Admissibility of parameters read off the docstrings (see evidence assumptions); statistical properties of the random models (edge probabilities) are not tested.", "DESIGN.md#C16"),
 "C17": ("Hypothesis-generated (seeded function by introspection, arguments, seed, schedule of RNG perturbations) cases; call-twice-and-compare oracle",
         "Exploration: every public callable with a seed parameter (21 found by introspection; uncovered ones are listed) is called twice with the same arguments and seed while a generated schedule draws from / re-seeds the global Python and NumPy generators, calls the same function with other seeds and calls other seeded functions in between; the two outputs must be identical (ordered network snapshot, exact position arrays, cluster dict).",
         "Single process, no threads; schedules of at most 8 perturbations are sampled; statistical correctness of the random models is not the property.", "DESIGN.md#C17"),
 "C18": ("Two-phase probing: candidates found by introspection; a (method, arguments) pair that changes the structure of an unfrozen copy must raise XGIError and change nothing on a frozen build / subhypergraph of the same network",
         "Exploration over every public method of the three classes and every in_place library function with generated networks and synthesised arguments; which pairs are structural mutators is decided by observation in phase 1, so new mutators are included without editing the check; frozen networks come from freeze() and from subhypergraph(); is_frozen and copy-of-frozen (equal, unfrozen, editable) are checked as well. The evidence lists the mutators discovered and the candidates never seen mutating.",
         "Arguments come from a name-keyed registry (uncovered candidates are listed); no-op pairs are not required to raise; attribute setters are not structural.", "DESIGN.md#C18"),
 "C19": ("Differential testing against brute-force set-theoretic constructions: Hypothesis-generated hypergraphs x all 32 cleanup flag combinations x in_place, selections and orders",
         "Exploration with an exhaustive flag grid per input: every generated hypergraph is run through all 32 cleanup combinations in both modes and compared (through the recorded old labels) with a construction written from the definition, so that nothing beyond what the guarantees exclude is deleted or merged; relabelling, subhypergraph, dual / dual-of-dual, <<, complement, cut_to_order, k_skeleton, from_max_simplices and largest_connected_hypergraph are compared with their set definitions.",
         "Ties between largest components accepted; cleanup(connected=True) on a network left without nodes is outside the domain (counted).", "DESIGN.md#C19"),
 "C20": ("Hypothesis-generated networks x layout options x drawing function x style mode; the matplotlib artists returned on the Agg backend are inspected against the supplied positions",
         "Exploration: every layout function must return exactly one finite 2-vector per node (bipartite: also per edge); barycenters are recomputed; draw / draw_nodes / draw_hyperedges / draw_simplices are called with scalar, list, dict and stat-valued styles and the returned collections are compared with the network: scatter offsets in node order, line segments = two-node edges, polygons = larger edges up to max_order (maximal simplices for complexes), as multisets of vertex sets. Any exception from a drawing call is a violation ('drawing succeeds').",
         "Convex-hull drawing and label artists are not inspected; per-ID dict styles are not exercised for draw_simplices (it re-indexes what it draws).", "DESIGN.md#C20"),
 "C05": ("Model-based testing: Hypothesis-generated histories applied step by step to xgi and to reference models transcribed from the docstrings (three classes), metamorphic relations for the degree-preserving moves",
         "Exploration by refinement checking against an executable specification: every op of a generated history is applied to the implementation and to the model (parametric in fresh IDs, prefix semantics for bulk calls) and the observable snapshots are compared after every step, including after rejected calls and their exception types.",
         "The models are my transcription of the documentation; inputs the documentation leaves contradictory are excluded by construction and counted (see assumptions in the evidence).", "DESIGN.md#C05"),
}

def main():
    checks = []
    for pid, (tech, text, note, ref) in sorted(CHECKS.items()):
        if not os.path.exists(os.path.join(ROOT, "pbt", "oracles", pid.lower() + ".py")):
            continue
        checks.append({
            "property_id": pid,
            "quick_cmd": "./check %s --tier quick" % pid,
            "thorough_cmd": "./check %s --tier thorough" % pid,
            "evidence_file": "evidence/%s.json" % pid,
            "replay_cmd_template": "./check %s --replay {path}" % pid,
            "engine": "pbt",
            "level_claimed": {"category": "exploration", "text": text, "design_ref": ref},
            "level_note": note,
            "technique": tech,
        })
    props = [json.loads(l)["id"] for l in open(os.path.join(ROOT, "properties.jsonl"))]
    claimed = {c["property_id"] for c in checks}
    na = [{"property_id": p, "reason": "check not built yet in this revision (planned, see DESIGN.md section 3); not a statement that the technique cannot apply"} for p in props if p not in claimed]
    assert not na, na
    m = {
        "version": 1,
        "setup_cmd": "./setup.sh",
        "hooks": {
            "guard": "XGI_VERIF",
            "enable": "none needed: xgi is pure Python and is imported from /repo's working tree (PYTHONPATH=/repo); ./check exports XGI_VERIF=1 but no source hook reads it",
            "baseline_off_cmd": "cd /repo && /venv/bin/python -m pytest -ra -q -p no:cacheprovider --timeout=900 --continue-on-collection-errors",
            "source_commits": [],
            "add_only": True,
        },
        "engines": [{"name": "pbt", "path": "pbt/", "serves_properties": sorted(claimed),
                     "kind_free_text": "Hypothesis 6.168 property-based testing: JSON cases, 16-way sharded collect-then-shrink driver, committed replay files, exhaustive enumeration for small finite sub-spaces"}],
        "checks": checks,
        "not_applicable": na,
        "notes": "Every check: exit 0 = held (KNOWN-FINDING lines possible), exit 1 = VIOLATION lines, exit 2 = harness error. VERIF_SEED and VERIF_TIER are honoured. Fixes to /repo are the 'fix:' commits listed in known_findings.json.",
    }
    json.dump(m, open(os.path.join(ROOT, "MANIFEST.json"), "w"), indent=1)
    print("claimed:", sorted(claimed))

main()
