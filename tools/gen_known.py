#!/usr/bin/env python3
"""Regenerates /verif/known_findings.json from the table below (committed; never written by a check)."""
import json, os
ROOT = os.path.dirname(os.path.dirname(os.path.abspath(__file__)))
FIX = {
 "F1": ("a403ca5", "None member: add_edge([3, None]) / add_edges_from([[3, None]]) / add_simplex([1, None]) raised but left a half-inserted edge"),
 "F5a": ("d804210", "add_edge([1,2], idx=0) then an automatic ID overwrote edge 0 (truthiness test on idx); add_simplex(idx=0) treated 0 as no ID"),
 "F5b": ("65c8c65", "add_edges_from([([1,2],5),([2,3],1)]) left the ID counter at 2; a later automatic ID overwrote edge 5"),
 "F5c": ("89ca1ce", "networks built through add_node_to_edge (incidence matrix, dataframe, bipartite edge list/graph, HIF, chung_lu, dcsbm) kept counter 0; first automatic ID overwrote edge 0"),
 "F2": ("edc58d0", "DiHypergraph.remove_node(n, strong=True) left deleted edge IDs in the memberships of the other tail/head nodes"),
 "F3": ("a0a34eb", "add_simplices_from([[1,2,3,4,5]], max_order=2) created 4-node faces"),
 "F4": ("5bef5e9", "add_simplex([]) stored an empty simplex"),
 "F6": ("4e075da", "add_edges_from({7: [1,2]}, tag='x') ignored the keyword attributes (dict format, three classes)"),
 "F15": ("d7108fd", "frozen networks could be modified through clear_edges / double_edge_swap / random_edge_shuffle (H, SC) and add_node_to_edge / remove_node_from_edge (DH)"),
 "F16": ("531dd8b", "add_simplices_from([[6,3,0],[2,3,4,6,None]]) raised on the 2nd element and left {0,3,6} without its faces"),
 "F7": ("9fdf921", "aspandas() of a stat (single and multi) was ordered by set iteration, not view order"),
 "F8": ("ecbb32b", "H.edges.maximal() raised TypeError when an empty edge exists"),
 "F9": ("2553bb1", "local_clustering_coefficient indexed the members list by edge ID (wrong values / IndexError for permuted, gapped or string IDs)"),
 "F10": ("89134da", "from_bipartite_graph swapped node/edge roles when an edge-vertex was inserted before its node-vertex"),
 "F11": ("b1f6e32", "SimplicialComplex(Hypergraph(..., name='y')) dropped the network attributes (also through HIF for complexes)"),
 "F12": ("10fb8cf", "read_incidence_matrix failed on 1 x m, n x 1 and 1 x 1 files"),
 "F13": ("613ec5e", "uniform_HSBM with a block probability equal to 1 raised TypeError"),
 "F17": ("1d1684f", "bulk adders iterated the members of each element twice: add_edges_from([(iter([1,2]),'x')]) left an edge whose members are not nodes (Hypergraph, DiHypergraph), add_edges_from([iter([3,4]), ...]) an empty first edge, add_simplices_from([(iter([1,2,3]),'x')]) a TypeError and an empty simplex"),
 "F18": ("0a3e879", "an explicit edge ID of another hashable type than int/float/str/tuple (UUID, complex, frozenset, bytes, Fraction-like, an int too large for a float) made add_edge / add_simplex / add_node_to_edge raise TypeError/ValueError/OverflowError from update_uid_counter after the edge was stored; add_simplex([1,2,3], idx=UUID(int=7)) left the complex without the faces"),
 "F19": ("4a1ad61", "from_hypergraph_dict / from_hif_dict (and read_json / read_hif) forwarded attributes as keyword arguments: a node attribute called 'node' (any node in the standard dict, an isolated node in HIF) or an attribute called 'members' / 'idx' on an empty edge made reading fail with TypeError"),
 "F14": ("f099939", "spectral_clustering(H, 2, seed=s) differed between two calls with the same seed (ARPACK start vector unseeded; ARPACK's internal restart stream persists across calls - e.g. Hypergraph([[6],[2,5,0,1]]))"),
}
# (property, fix key, replay file)   -- a fixed entry suppresses nothing; its replay is run first by every check
FIXED = [
 ("C01", "F1", "replays/C01-F1-add_edge-none.json"), ("C01", "F1", "replays/C01-F1-bulk-none.json"),
 ("C01", "F5a", "replays/C01-F5-idx0-overwrite.json"), ("C01", "F5c", "replays/C01-F5-df-overwrite.json"),
 ("C02", "F2", "replays/C02-F2-strong-removal.json"), ("C02", "F1", "replays/C02-F1-add_edge-none.json"),
 ("C03", "F3", "replays/C03-F3-max_order.json"), ("C03", "F4", "replays/C03-F4-empty-simplex.json"),
 ("C03", "F16", "replays/C03-F16-bulk-raise-skips-faces.json"), ("C03", "F1", "replays/C03-F1-add_simplex-none.json"),
 ("C05", "F6", "replays/C05-F6-format5-kwargs.json"), ("C05", "F6", "replays/C05-F6-format5-kwargs-dh.json"),
 ("C05", "F6", "replays/C05-F6-format5-kwargs-sc.json"), ("C05", "F5a", "replays/C05-F5a-add_simplex-idx0.json"),
 ("C05", "F1", "replays/C05-F1-none-accepted.json"),
 ("C06", "F7", "replays/C06-F7-aspandas-order.json"), ("C06", "F8", "replays/C06-F8-maximal-empty-edge.json"),
 ("C06", "F9", "replays/C06-F9-local-clustering-ids.json"),
 ("C07", "F5a", "replays/C07-F5a-copy-fresh-id.json"),
 ("C09", "F9", "replays/C09-F9-local-clustering.json"),
 ("C10", "F10", "replays/C10-F10-bipartite-order.json"), ("C10", "F11", "replays/C10-F11-sc-net-attrs.json"),
 ("C11", "F12", "replays/C11-F12-incidence-1xm.json"), ("C11", "F11", "replays/C11-F11-hif-sc-net-attrs.json"),
 ("C16", "F13", "replays/C16-F13-hsbm-p1.json"),
 ("C17", "F14", "replays/C17-F14-spectral.json"),
 ("C18", "F15", "replays/C18-F15-clear_edges.json"), ("C18", "F15", "replays/C18-F15-dh-add_node_to_edge.json"),
 ("C01", "F17", "replays/C01-F17-bulk-iterator-members.json"), ("C02", "F17", "replays/C02-F17-bulk-iterator-members.json"),
 ("C03", "F17", "replays/C03-F17-bulk-iterator-members.json"), ("C05", "F17", "replays/C05-F17-bulk-iterator-members.json"),
 ("C03", "F18", "replays/C03-F18-exotic-id-skips-faces.json"), ("C05", "F18", "replays/C05-F18-exotic-id-raises.json"),
 ("C05", "F18", "replays/C05-F18-exotic-id-raises-dh.json"),
 ("C10", "F19", "replays/C10-F19-attribute-named-like-a-parameter.json"), ("C11", "F19", "replays/C11-F19-attribute-named-like-a-parameter.json"),
 ("C04", "F5a", "replays/C04-F5a-idx0.json"), ("C04", "F5b", "replays/C04-F5b-bulk-desc.json"),
 ("C04", "F5c", "replays/C04-F5c-df.json"), ("C04", "F5c", "replays/C04-F5c-dh-bipartite.json"),
]
KNOWN = [
 # (property, id, bucket, what, replay)
 ("C12", "K1", ["normalized-laplacian", "weighted", "uses-unweighted-vertex-degrees"],
  "normalized_hypergraph_laplacian(H, weighted=True) with an edge weight != 1 keeps unweighted vertex degrees: not the textbook (Zhou et al.) matrix and, for a weight > 1, not PSD (input: Hypergraph([[1, 2]]) with weight 10 -> eigenvalue -9). Not repaired: tests/linalg/test_matrix.py::test_fix_647 asserts exactly this formula (2L - I for a uniform weight 2).",
  "replays/C12-K1-weighted-normalized-laplacian.json"),
]
def main():
    out = []
    for prop, key, replay in FIXED:
        commit, what = FIX[key]
        assert os.path.exists(os.path.join(ROOT, replay)), replay
        out.append({"property": prop, "id": key, "status": "fixed", "commit": commit, "what": what, "replay": replay,
                    "line": "fixed: property=%s %s %s" % (prop, commit, what)})
    for prop, kid, bucket, what, replay in KNOWN:
        assert os.path.exists(os.path.join(ROOT, replay)), replay
        out.append({"property": prop, "id": kid, "status": "known", "bucket": bucket, "what": what, "replay": replay})
    json.dump({"comment": "known = genuine defect recorded, not repaired (suppresses exactly its bucket while its replay still fails); fixed = repaired in /repo by the named 'fix:' commit (suppresses nothing; its replay is a regression test)",
               "fix_commits": {k: {"commit": c, "what": w} for k, (c, w) in FIX.items()},
               "findings": out}, open(os.path.join(ROOT, "known_findings.json"), "w"), indent=1)
    print(len(out), "entries")
main()
