#!/bin/sh
# tools/mut.sh <Cxx> <file relative to xgi/> <python-regex-old> <new>   -- one-off sensitivity run against a scratch copy
# copies /repo/xgi to /tmp/xgi_mut, applies one textual substitution there, runs the quick check against it, removes the copy
set -e
pid="$1"; file="$2"; old="$3"; new="$4"
rm -rf /tmp/xgi_mut; mkdir -p /tmp/xgi_mut; cp -r /repo/xgi /tmp/xgi_mut/xgi
python3 - "$file" "$old" "$new" <<'PY'
import re, sys
f, old, new = sys.argv[1:4]
p = "/tmp/xgi_mut/xgi/" + f
s = open(p).read()
n = len(re.findall(old, s))
assert n >= 1, "pattern not found"
s = re.sub(old, new, s, count=1)
open(p, "w").write(s)
print("mutated", f, "(%d match(es), first replaced)" % n)
PY
cd "$(dirname "$0")/.."
VERIF_REPO=/tmp/xgi_mut ./check "$pid" --tier quick | grep -E "^VIOLATION|^C[0-9]+ |HARNESS" | cut -c1-200 | head -${MUT_LINES:-6}
rm -rf /tmp/xgi_mut
