#!/bin/sh
# tools/try_mutant.sh <patch.diff> [tier] [Cxx ...]  - applies the patch to a scratch copy of /repo's xgi (outside /repo and /verif),
# runs the given checks (default: all 20) against it, prints which ones report a violation, removes the copy.
patch="$(readlink -f "$1")"; tier="${2:-quick}"; shift; shift 2>/dev/null
checks="$*"; [ -z "$checks" ] && checks="C01 C02 C03 C04 C05 C06 C07 C08 C09 C10 C11 C12 C13 C14 C15 C16 C17 C18 C19 C20"
d=$(mktemp -d /tmp/xgi_mutant.XXXXXX)
cp -r /repo/xgi "$d/xgi"
( cd "$d" && patch -s -p1 < "$patch" ) || { echo "patch failed"; rm -rf "$d"; exit 2; }
cd "$(dirname "$0")/.."
det=""
for c in $checks; do
  out=$(VERIF_REPO="$d" ./check $c --tier "$tier" 2>&1); rc=$?
  if [ $rc -eq 1 ]; then det="$det $c"; echo "== $c DETECTS:"; echo "$out" | grep -E "^VIOLATION|bucket=" | head -4 | cut -c1-260
  elif [ $rc -ne 0 ]; then echo "== $c rc=$rc (harness error)"; echo "$out" | tail -5 | cut -c1-300; fi
done
echo "DETECTED BY:${det:- none}"
rm -rf "$d"
