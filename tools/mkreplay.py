#!/usr/bin/env python3
"""tools/mkreplay.py <PID> <name> '<case json>' ['what']  -> replays/<PID>-<name>.json
Runs the case against the pre-fix tree given by $OLD (default /tmp/xgi_old) and against /repo and prints the buckets."""
import json, os, subprocess, sys
ROOT = os.path.dirname(os.path.dirname(os.path.abspath(__file__)))
pid, name, case = sys.argv[1], sys.argv[2], json.loads(sys.argv[3])
what = sys.argv[4] if len(sys.argv) > 4 else ""
path = os.path.join(ROOT, "replays", "%s-%s.json" % (pid, name))
json.dump({"property": pid, "what": what, "case": case}, open(path, "w"), indent=1, sort_keys=True)
for repo in (os.environ.get("OLD", "/tmp/xgi_old"), "/repo"):
    env = dict(os.environ, VERIF_REPO=repo)
    p = subprocess.run([os.path.join(ROOT, "check"), pid, "--replay", path], env=env, capture_output=True, text=True)
    print(repo, "rc=%d" % p.returncode, (p.stdout + p.stderr).strip()[:600].replace("\n", " | "))
