#!/usr/bin/env python3
"""Run the repository's pinned baseline exactly as /root/.vp/BASELINE.json does (guard off) and compare
with its stable_pass list.  exit 0 iff every stable_pass test passed."""
import json, os, subprocess, sys, tempfile
import xml.etree.ElementTree as ET

b = json.load(open("/root/.vp/BASELINE.json"))
fd, path = tempfile.mkstemp(suffix=".xml"); os.close(fd)
env = {k: v for k, v in os.environ.items() if k != "XGI_VERIF"}
cmd = b["cmd"].replace("<file>", path)
if len(sys.argv) > 1:  # run the same suite in another checkout (scratch worktree), importing that checkout's xgi
    wt = os.path.abspath(sys.argv[1])
    cmd = cmd.replace("cd /repo", "cd " + wt)
    env["PYTHONPATH"] = wt
    cmd += " --ignore=demo.py"
p = subprocess.run(cmd, shell=True, env=env, capture_output=True, text=True)
passed, failed = set(), set()
for tc in ET.parse(path).getroot().iter("testcase"):
    tid = (tc.get("classname") or "") + "::" + (tc.get("name") or "")
    if tc.find("failure") is not None or tc.find("error") is not None: failed.add(tid)
    elif tc.find("skipped") is None: passed.add(tid)
os.unlink(path)
passed -= failed
missing = sorted(set(b["stable_pass"]) - passed)
print(p.stdout.strip().splitlines()[-1])
print("stable_pass: %d, of which passing now: %d; newly passing: %s" % (len(b["stable_pass"]), len(b["stable_pass"]) - len(missing), sorted(passed - set(b["stable_pass"]))))
for m in missing: print("MISSING", m)
sys.exit(1 if missing else 0)
