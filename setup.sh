#!/bin/sh
# offline setup: make sure hypothesis is importable in /venv (it normally already is)
/venv/bin/python -c "import hypothesis" 2>/dev/null || \
  /venv/bin/pip install --no-index --find-links /opt/veriftools/wheels hypothesis || exit 1
/venv/bin/python -c "import hypothesis, xgi, numpy, scipy, pandas, networkx, matplotlib; print('setup ok: hypothesis', hypothesis.__version__)"
