import xgi, warnings, random, numpy as np, itertools, collections, traceback, sys
import matplotlib; matplotlib.use("Agg"); import matplotlib.pyplot as plt
warnings.simplefilter("ignore")
fails=collections.Counter(); ex={}
def fail(k,*info):
    fails[k]+=1; ex.setdefault(k,info)
def rand_h(r,sc=False):
    kind=r.choice(["int","str","neg","perm"])
    n=r.randint(2,7)
    if kind=="int": nodes=list(range(n))
    elif kind=="str": nodes=[chr(97+i)*r.randint(1,2) for i in range(n)]
    elif kind=="neg": nodes=[i-3 for i in range(n)]
    else: nodes=r.sample(range(50),n)
    H=xgi.SimplicialComplex() if sc else xgi.Hypergraph()
    H.add_nodes_from(nodes)
    m=r.randint(1,6); have2=False
    for i in range(m):
        k=r.choice([1,2,2,3,3,4,5]); k=min(k,n)
        if i==m-1 and not have2: k=max(k,2)
        have2|=k>=2
        mem=r.sample(nodes,k)
        idx=r.choice([None,None,"e%d"%i,100+i])
        if sc: H.add_simplex(mem,idx=idx)
        else: H.add_edge(mem,idx=idx)
    return H
def close(a,b): return np.allclose(np.asarray(a,float),np.asarray(b,float))
def check(r):
    sc=r.random()<0.4
    H=rand_h(r,sc)
    nodes=list(H.nodes); mem=H.edges.members(dtype=dict)
    lays={"circular":lambda:xgi.circular_layout(H),"spiral":lambda:xgi.spiral_layout(H,equidistant=r.random()<0.5),"random":lambda:xgi.random_layout(H,seed=r.randint(0,9)),
          "pairwise":lambda:xgi.pairwise_spring_layout(H,seed=1),"bary":lambda:xgi.barycenter_spring_layout(H,seed=1),"wbary":lambda:xgi.weighted_barycenter_spring_layout(H,seed=1),
          "kk":lambda:xgi.barycenter_kamada_kawai_layout(H)}
    pos=None
    for nm,f in lays.items():
        try: p=f()
        except Exception as e: fail("layout-exc-"+nm,type(e).__name__,str(e)[:80],nodes,list(mem.values())); continue
        if set(p)!=set(nodes) or len(p)!=len(nodes): fail("layout-keys-"+nm,sorted(map(str,p)),nodes)
        elif not all(np.asarray(v,float).shape==(2,) and np.all(np.isfinite(np.asarray(v,float))) for v in p.values()): fail("layout-finite-"+nm)
        else: pos=p if pos is None or r.random()<0.3 else pos
    if not sc:
        try:
            np_,ep=xgi.bipartite_spring_layout(H,seed=2)
            if set(np_)!=set(nodes) or set(ep)!=set(mem): fail("bip-layout-keys")
        except Exception as e: fail("bip-layout-exc",type(e).__name__)
    bc=xgi.edge_positions_from_barycenters(H,pos)
    for e in mem:
        if not close(bc[e],np.mean([pos[v] for v in mem[e]],axis=0)): fail("barycenter")
    fig,ax=plt.subplots()
    try:
        mo=r.choice([None,None,1,2,3])
        ax,(nc,dc,ec)=xgi.draw(H,pos=pos,ax=ax,max_order=mo)
    except Exception as e:
        fail("draw-exc",type(e).__name__,str(e)[:100],sc,mo,nodes,list(mem.values())); plt.close("all"); return
    off=nc.get_offsets()
    if len(off)!=len(nodes) or not close(off,[pos[v] for v in nodes]): fail("nodes-offsets")
    segs=dc.get_segments()
    msets={frozenset(m) for m in mem.values()}
    eff_mo=mo if mo else xgi.max_edge_order(H)
    if sc:
        dy=[m for m in msets if len(m)==2]
        maxs=[m for m in msets if len(m)<=eff_mo+1]; maxs=[m for m in maxs if not any(m<o for o in maxs) and len(m)>=3]
        polys_want=collections.Counter(frozenset(tuple(np.round(np.asarray(pos[v],float),9)) for v in m) for m in maxs)
        dy_want=collections.Counter(frozenset(tuple(np.round(np.asarray(pos[v],float),9)) for v in m) for m in dy)
    else:
        dyl=[mem[e] for e in mem if len(mem[e])==2]
        dy_want=collections.Counter(frozenset(tuple(np.round(np.asarray(pos[v],float),9)) for v in m) for m in dyl)
        big=[mem[e] for e in mem if 3<=len(mem[e])<=eff_mo+1]
        polys_want=collections.Counter(frozenset(tuple(np.round(np.asarray(pos[v],float),9)) for v in m) for m in big)
    dy_got=collections.Counter(frozenset(tuple(np.round(p,9)) for p in s) for s in segs)
    if dy_got!=dy_want: fail("dyads",sc,mo,len(segs),sum(dy_want.values()))
    polys_got=collections.Counter(frozenset(tuple(np.round(p,9)) for p in path.vertices) for path in ec.get_paths())
    if polys_got!=polys_want: fail("polys",sc,mo,sum(polys_got.values()),sum(polys_want.values()),list(mem.values()))
    plt.close("all")
N=int(sys.argv[1])
for s in range(N):
    r=random.Random(s)
    try: check(r)
    except Exception as e: fail("HARNESS",traceback.format_exc()[-700:]); plt.close("all")
for k,v in fails.most_common(): print(v,k,str(ex[k])[:700])
print("done")
