import xgi, warnings, random, numpy as np, itertools, collections, traceback, sys, copy, networkx as nx
from math import comb
warnings.simplefilter("ignore")
fails=collections.Counter(); ex={}
def fail(k,*info):
    fails[k]+=1; ex.setdefault(k,info)
def basic(H,nodes,name,sizes=None,nodup=False,maxsize=None):
    if set(H.nodes)!=set(nodes) or H.num_nodes!=len(set(nodes)): fail(name+"-nodes",sorted(H.nodes,key=str)[:8],sorted(nodes,key=str)[:8])
    ms=H.edges.members()
    for m in ms:
        if not m<=set(H.nodes): fail(name+"-edge-not-subset")
        if sizes is not None and len(m) not in sizes: fail(name+"-size",len(m),sizes)
        if maxsize is not None and not (1<=len(m)<=maxsize): fail(name+"-maxsize",len(m))
    if nodup and len(set(map(frozenset,ms)))!=len(ms): fail(name+"-dups")
def closed(S,name):
    ms={frozenset(m) for m in S.edges.members()}
    if len(ms)!=S.num_edges: fail(name+"-sc-dups")
    for m in ms:
        for k in range(2,len(m)):
            for c in itertools.combinations(m,k):
                if frozenset(c) not in ms: fail(name+"-not-closed"); return
def check(r,seed):
    n=r.randint(0,7)
    ps=[r.choice([0,0.3,0.7,1]) for _ in range(r.randint(1,3))]
    for f in (xgi.fast_random_hypergraph,xgi.random_hypergraph):
        try:
            H=f(n,ps,seed=seed); basic(H,range(n),f.__name__,sizes=set(range(2,len(ps)+2)),nodup=True)
            for d,p in enumerate(ps,1):
                c=len(H.edges.filterby("order",d))
                if p==0 and c: fail(f.__name__+"-p0")
                if p==1 and c!=comb(n,d+1): fail(f.__name__+"-p1",c,comb(n,d+1))
            order=r.sample([1,2,3,4],len(ps)); H=f(n,ps,order=order,seed=seed); basic(H,range(n),f.__name__+"-order",sizes={o+1 for o in order},nodup=True)
        except Exception as e: fail(f.__name__+"-exc",type(e).__name__,str(e)[:80],n,ps)
    m=r.randint(1,4); p=r.choice([0,0.2,0.6,1])
    for me in [False,True]:
        try:
            H=xgi.uniform_erdos_renyi_hypergraph(n,m,p,multiedges=me,seed=seed); basic(H,range(n),"uer",sizes={m},nodup=not me)
            if p==0 and H.num_edges: fail("uer-p0")
            if p==1 and not me and H.num_edges!=comb(n,m): fail("uer-p1",n,m,H.num_edges)
        except Exception as e: fail("uer-exc",type(e).__name__,str(e)[:80],n,m,p,me)
    if n>=1:
        try:
            H=xgi.uniform_erdos_renyi_hypergraph(n,m,r.choice([0,0.5,1.5]),p_type="degree",seed=seed); basic(H,range(n),"uer-deg",sizes={m},nodup=True)
        except xgi.exception.XGIError: pass
        except Exception as e: fail("uer-deg-exc",type(e).__name__,str(e)[:80],n,m)
    # HSBM
    k=r.randint(1,3); m=r.randint(2,3); sizes=[r.randint(0,3) for _ in range(k)]; nn=sum(sizes)
    P=np.array([r.choice([0,0.3,1]) for _ in range(k**m)],float).reshape((k,)*m)
    try:
        H=xgi.uniform_HSBM(nn,m,P,sizes,seed=seed); basic(H,range(nn),"hsbm",sizes={m})
    except Exception as e: fail("hsbm-exc",type(e).__name__,str(e)[:60],1.0 in P)
    try:
        H=xgi.uniform_HPPM(n,m,r.choice([0,1,2]),r.choice([0,0.5,1]),rho=r.choice([0,0.3,0.5,1]),seed=seed); basic(H,range(n),"hppm",sizes={m})
    except xgi.exception.XGIError: pass
    except Exception as e: fail("hppm-exc",type(e).__name__,str(e)[:60],n,m)
    # config model
    m=r.randint(2,3); nn=r.randint(m,7); k={("v%d"%i if seed%2 else i):r.randint(0,3) for i in range(nn)}
    k0=dict(k)
    try:
        H=xgi.uniform_hypergraph_configuration_model(k,m,seed=seed); basic(H,k0.keys(),"ucm",sizes={m})
        for v,d in H.nodes.degree.asdict().items():
            if d>k[v] or k[v]-k0[v] not in (0,1): fail("ucm-degree",d,k[v],k0[v])
    except Exception as e: fail("ucm-exc",type(e).__name__,str(e)[:60])
    # chung-lu / dcsbm
    nn=r.randint(1,6); mm=r.randint(1,6)
    k1={i:r.randint(0,4) for i in range(nn)}; k2={"e%d"%j:r.randint(0,4) for j in range(mm)}
    if sum(k1.values())>0:
        try:
            H=xgi.chung_lu_hypergraph(k1,k2,seed=seed); basic(H,k1.keys(),"cl")
            if not set(H.edges)<=set(k2): fail("cl-edges")
        except Exception as e: fail("cl-exc",type(e).__name__,str(e)[:60],k1,k2)
    # complete
    N=r.randint(0,6); o=r.randint(0,4)
    H=xgi.complete_hypergraph(N,order=o); basic(H,range(N),"complete",sizes={o+1},nodup=True)
    if H.num_edges!=comb(N,o+1): fail("complete-count")
    mo=r.randint(1,4); inc_s=r.random()<0.5
    H=xgi.complete_hypergraph(N,max_order=mo,include_singletons=inc_s); basic(H,range(N),"complete-max",nodup=True)
    if H.num_edges!=sum(comb(N,s) for s in range(1 if inc_s else 2,mo+2)): fail("complete-max-count")
    # ring lattice / WS
    n_=r.randint(3,10); d=r.randint(2,4); k_=r.choice([0,2,4]); l=r.randint(0,2)
    try:
        H=xgi.ring_lattice(n_,d,k_,l); basic(H,range(n_),"ring",maxsize=d)
        if H.num_edges!=n_*(k_//2): fail("ring-count")
        if n_>k_//2+l+d-2 and any(len(m_)!=d for m_ in H.edges.members()): fail("ring-uniform")
        H=xgi.watts_strogatz_hypergraph(n_,d,k_,l,r.choice([0,0.5,1]),seed=seed); basic(H,range(n_),"ws",maxsize=d)
    except Exception as e: fail("ring-exc",type(e).__name__,str(e)[:60],n_,d,k_,l)
    ns=r.randint(1,4); nc=r.randint(1,5); dm=r.randint(0,nc-1)
    H=xgi.star_clique(ns,nc,dm); basic(H,range(ns+nc),"starclique")
    l_=r.randint(0,4); c=r.randint(0,3); m_=c+r.randint(1,3)
    H=xgi.sunflower(l_,c,m_); basic(H,range(c+(m_-c)*l_) if l_ else [], "sunflower",sizes={m_},nodup=True)
    if H.num_edges!=l_: fail("sunflower-count",l_,c,m_,H.num_edges)
    # SCs
    N=r.randint(0,6); ps=[r.choice([0,0.3,1]) for _ in range(r.randint(1,3))]
    S=xgi.random_simplicial_complex(N,ps,seed=seed); basic(S,range(N),"rsc"); closed(S,"rsc")
    G=nx.gnp_random_graph(r.randint(1,7),r.choice([0.3,0.6,1]),seed=seed)
    for mo in [1,2,3]:
        S=xgi.flag_complex(G,max_order=mo); basic(S,G.nodes,"flag"); closed(S,"flag")
        want={frozenset(c) for c in nx.enumerate_all_cliques(G) if 2<=len(c)<=mo+1}
        if {frozenset(m) for m in S.edges.members()}!=want: fail("flag-cliques",mo)
        S=xgi.random_flag_complex(r.randint(1,7),r.choice([0,0.5,1]),max_order=mo,seed=seed); closed(S,"rflag")
    S=xgi.flag_complex_d2(G); closed(S,"flagd2")
    if {frozenset(m) for m in S.edges.members()}!={frozenset(c) for c in nx.enumerate_all_cliques(G) if 2<=len(c)<=3}: fail("flagd2-cliques")
# index decodings exhaustive
from xgi.generators.uniform import _index_to_edge_comb,_index_to_edge_prod,_index_to_edge_partition
for n in range(1,8):
    for m in range(1,n+1):
        got=[tuple(_index_to_edge_comb(i,n,m)) for i in range(comb(n,m))]
        if got!=list(itertools.combinations(range(n),m)): fail("idx-comb",n,m)
        got=[tuple(_index_to_edge_prod(i,n,m)) for i in range(n**m)] if n**m<5000 else None
        if got is not None and got!=list(itertools.product(range(n),repeat=m)): fail("idx-prod",n,m)
for ps_ in itertools.product(range(1,4),repeat=3):
    tot=ps_[0]*ps_[1]*ps_[2]
    got=[tuple(_index_to_edge_partition(i,list(ps_),3)) for i in range(tot)]
    if got!=list(itertools.product(*[range(x) for x in ps_])): fail("idx-part",ps_)
N=int(sys.argv[1])
for s in range(N):
    r=random.Random(s)
    try: check(r,s)
    except Exception as e: fail("HARNESS",traceback.format_exc()[-700:])
for k,v in fails.most_common(): print(v,k,str(ex[k])[:500])
print("done")
