"""Quick prototype: random histories on Hypergraph vs a docs-transcribed model. Exploration only."""
import random, warnings, copy, sys, collections, traceback
import xgi
from xgi.exception import XGIError, IDNotFound
warnings.simplefilter("ignore")

class Reject(Exception):
    def __init__(self, kind): self.kind=kind

class Model:
    def __init__(self):
        self.nodes={}   # n -> attrs
        self.edges={}   # id -> [set, attrs]
        self.net={}
    def snap(self):
        return (dict((n,dict(a)) for n,a in self.nodes.items()),
                dict((e,(frozenset(m),dict(a))) for e,(m,a) in self.edges.items()),
                dict(self.net))

def real_snap(H):
    return (dict((n,dict(H._node_attr[n])) for n in H._node),
            dict((e,(frozenset(H._edge[e]),dict(H._edge_attr[e]))) for e in H._edge),
            dict(H._net_attr))

def integrity(H):
    errs=[]
    for n,es in H._node.items():
        for e in es:
            if e not in H._edge: errs.append(f"node {n!r} -> missing edge {e!r}")
            elif n not in H._edge[e]: errs.append(f"node {n!r} lists edge {e!r} but not member")
    for e,ns in H._edge.items():
        for n in ns:
            if n not in H._node: errs.append(f"edge {e!r} -> missing node {n!r}")
            elif e not in H._node[n]: errs.append(f"edge {e!r} has member {n!r} without membership")
    if set(H._node)!=set(H._node_attr): errs.append("node attr keys mismatch")
    if set(H._edge)!=set(H._edge_attr): errs.append("edge attr keys mismatch")
    return errs

def gen_attrs(r):
    k=r.choice([0,0,1,2])
    return {r.choice(["color","w","tag"]): r.choice([1,2,"red","blue"]) for _ in range(k)}

def gen_members(r, nodes, allow_empty=False):
    k=r.choice([0] if allow_empty and r.random()<0.1 else [1,2,2,3,3,4])
    m=[r.choice(nodes) for _ in range(k)]
    if r.random()<0.05: m.insert(r.randint(0,len(m)),None)
    return m

def gen_op(r, nodes, eids):
    ops=["add_node","add_nodes_from","remove_node","remove_nodes_from","set_node_attributes","add_edge","add_edge_id","add_edges_from",
         "set_edge_attributes","double_edge_swap","random_edge_shuffle","add_node_to_edge","remove_edge","remove_edges_from",
         "remove_node_from_edge","update","clear","clear_edges","merge_duplicate_edges","add_weighted_edges_from"]
    w=[2,2,3,1,1,6,4,6,1,2,2,3,3,1,3,1,0.3,0.3,2,1]
    name=r.choices(ops,w)[0]
    n=lambda: r.choice(nodes); e=lambda: r.choice(eids)
    if name=="add_node": return (name,n(),gen_attrs(r))
    if name=="add_nodes_from":
        lst=[ (n(),gen_attrs(r)) if r.random()<0.5 else n() for _ in range(r.randint(0,3))]
        return (name,lst,gen_attrs(r))
    if name=="remove_node": return (name,n(),r.random()<0.4,r.random()<0.7)
    if name=="remove_nodes_from": return (name,[n() for _ in range(r.randint(0,3))],r.random()<0.4,r.random()<0.7)
    if name=="set_node_attributes":
        mode=r.choice(["const","dict","dod"])
        if mode=="const": return (name,r.choice([1,"z"]),"color")
        if mode=="dict": return (name,{n():r.choice([1,2]) for _ in range(2)},"w")
        return (name,{n():gen_attrs(r) for _ in range(2)},None)
    if name=="add_edge": return (name,gen_members(r,nodes),None,gen_attrs(r))
    if name=="add_edge_id": return ("add_edge",gen_members(r,nodes),e(),gen_attrs(r))
    if name=="add_edges_from":
        fmt=r.choice([1,2,3,4,5]); k=r.randint(0,3)
        if fmt==1: b=[gen_members(r,nodes) for _ in range(k)]
        elif fmt==2: b=[(gen_members(r,nodes),e()) for _ in range(k)]
        elif fmt==3: b=[(gen_members(r,nodes),gen_attrs(r)) for _ in range(k)]
        elif fmt==4: b=[(gen_members(r,nodes),e(),gen_attrs(r)) for _ in range(k)]
        else: b={e():gen_members(r,nodes) for _ in range(k)}
        return (name,fmt,b,gen_attrs(r))
    if name=="add_weighted_edges_from":
        return (name,[tuple(gen_members(r,nodes))+(r.choice([0.5,2]),) for _ in range(r.randint(0,2))],gen_attrs(r))
    if name=="set_edge_attributes":
        mode=r.choice(["const","dict","dod"])
        if mode=="const": return (name,r.choice([1,"z"]),"color")
        if mode=="dict": return (name,{e():r.choice([1,2]) for _ in range(2)},"w")
        return (name,{e():gen_attrs(r) for _ in range(2)},None)
    if name=="double_edge_swap": return (name,n(),n(),e(),e())
    if name=="random_edge_shuffle": return (name,e(),e(),r.randint(0,10**6))
    if name=="add_node_to_edge": return (name,e(),n())
    if name=="remove_edge": return (name,e())
    if name=="remove_edges_from": return (name,[e() for _ in range(r.randint(0,3))])
    if name=="remove_node_from_edge": return (name,e(),n(),r.random()<0.7)
    if name=="update": return (name,[gen_members(r,nodes) for _ in range(r.randint(0,2))],[n() for _ in range(r.randint(0,2))])
    if name=="clear": return (name,r.random()<0.5)
    if name=="clear_edges": return (name,)
    if name=="merge_duplicate_edges": return (name,r.choice(["first","tuple","new"]),r.choice(["first","union","intersection"]),r.choice([None,"mult"]))
    raise AssertionError(name)

def apply_real(H, op):
    name=op[0]
    if name=="add_node": H.add_node(op[1],**op[2])
    elif name=="add_nodes_from": H.add_nodes_from(copy.deepcopy(op[1]),**op[2])
    elif name=="remove_node": H.remove_node(op[1],strong=op[2],remove_empty=op[3])
    elif name=="remove_nodes_from": H.remove_nodes_from(op[1],strong=op[2],remove_empty=op[3])
    elif name=="set_node_attributes": H.set_node_attributes(copy.deepcopy(op[1]),name=op[2])
    elif name=="add_edge": H.add_edge(op[1],idx=op[2],**op[3])
    elif name=="add_edges_from": H.add_edges_from(copy.deepcopy(op[2]),**op[3])
    elif name=="add_weighted_edges_from": H.add_weighted_edges_from(op[1],**op[2])
    elif name=="set_edge_attributes": H.set_edge_attributes(copy.deepcopy(op[1]),name=op[2])
    elif name=="double_edge_swap": H.double_edge_swap(*op[1:])
    elif name=="random_edge_shuffle": random.seed(op[3]); H.random_edge_shuffle(op[1],op[2])
    elif name=="add_node_to_edge": H.add_node_to_edge(op[1],op[2])
    elif name=="remove_edge": H.remove_edge(op[1])
    elif name=="remove_edges_from": H.remove_edges_from(op[1])
    elif name=="remove_node_from_edge": H.remove_node_from_edge(op[1],op[2],remove_empty=op[3])
    elif name=="update": H.update(edges=op[1],nodes=op[2])
    elif name=="clear": H.clear(remove_net_attr=op[1])
    elif name=="clear_edges": H.clear_edges()
    elif name=="merge_duplicate_edges": H.merge_duplicate_edges(rename=op[1],merge_rule=op[2],multiplicity=op[3])
    else: raise AssertionError(name)

class Fresh:  # placeholder for automatic id
    pass

def m_add_edge(M, members, idx, attrs, fresh):
    """fresh: iterator providing ids chosen by the implementation for automatic ids"""
    if None in members: raise Reject("none")
    if idx is not None and idx in M.edges: return  # warn & skip
    if idx is None: idx=next(fresh)
    for n in members:
        if n not in M.nodes: M.nodes[n]={}
    M.edges[idx]=[set(members),dict(attrs)]

def apply_model(M, op, fresh):
    name=op[0]
    if name=="add_node":
        M.nodes.setdefault(op[1],{}).update(op[2])
    elif name=="add_nodes_from":
        for x in op[1]:
            if isinstance(x,tuple): n,d=x; a=dict(op[2]); a.update(d)
            else: n=x; a=dict(op[2])
            M.nodes.setdefault(n,{}).update(a)
    elif name=="remove_node":
        n,strong,rem=op[1:]
        if n not in M.nodes: raise Reject("id")
        del M.nodes[n]
        for e in list(M.edges):
            m=M.edges[e][0]
            if n in m:
                if strong: del M.edges[e]
                else:
                    m.discard(n)
                    if not m and rem: del M.edges[e]
    elif name=="remove_nodes_from":
        for n in op[1]:
            if n in M.nodes: apply_model(M,("remove_node",n,op[2],op[3]),fresh)
    elif name=="set_node_attributes":
        v,nm=op[1],op[2]
        if nm is not None:
            if isinstance(v,dict):
                for n,x in v.items():
                    if n in M.nodes: M.nodes[n][nm]=x
            else:
                for n in M.nodes: M.nodes[n][nm]=v
        else:
            for n,d in v.items():
                if n in M.nodes: M.nodes[n].update(d)
    elif name=="add_edge":
        m_add_edge(M,op[1],op[2],op[3],fresh)
    elif name=="add_edges_from":
        fmt,b,attr=op[1:]
        if fmt==5:
            for idx,mem in b.items(): m_add_edge(M,mem,idx,attr,fresh)   # docs: attr applies to all edges
        else:
            for x in b:
                if fmt==1: mem,idx,ea=x,None,{}
                elif fmt==2: mem,idx,ea=x[0],x[1],{}
                elif fmt==3: mem,idx,ea=x[0],None,x[1]
                else: mem,idx,ea=x
                a=dict(attr); a.update(ea)
                m_add_edge(M,mem,idx,a,fresh)
    elif name=="add_weighted_edges_from":
        for x in op[1]:
            a=dict(op[2]); a["weight"]=x[-1]
            m_add_edge(M,x[:-1],None,a,fresh)
    elif name=="set_edge_attributes":
        v,nm=op[1],op[2]
        if nm is not None:
            if isinstance(v,dict):
                for e,x in v.items():
                    if e in M.edges: M.edges[e][1][nm]=x
            else:
                for e in M.edges: M.edges[e][1][nm]=v
        else:
            for e,d in v.items():
                if e in M.edges: M.edges[e][1].update(d)
    elif name=="double_edge_swap":
        n1,n2,e1,e2=op[1:]
        if n1 not in M.nodes or n2 not in M.nodes or e1 not in M.edges or e2 not in M.edges: raise Reject("id")
        m1,m2=M.edges[e1][0],M.edges[e2][0]
        if n1 not in m1 or n2 not in m2: raise Reject("id")
        new1=(m1-{n1})|{n2}; new2=(m2-{n2})|{n1}
        if e1==e2:
            new1=(m1-{n1})|{n2}; new2=(m1-{n2})|{n1}
        if len(new1)!=len(m1) or len(new2)!=len(m2): raise Reject("size")
        # memberships sizes preserved?
        if e1!=e2:
            M.edges[e1][0]=new1; M.edges[e2][0]=new2
    elif name=="random_edge_shuffle":
        raise NotImplementedError
    elif name=="add_node_to_edge":
        e,n=op[1:]
        if e not in M.edges: M.edges[e]=[set(),{}]
        if n not in M.nodes: M.nodes[n]={}
        M.edges[e][0].add(n)
    elif name=="remove_edge":
        if op[1] not in M.edges: raise Reject("id")
        del M.edges[op[1]]
    elif name=="remove_edges_from":
        for e in op[1]:
            if e not in M.edges: raise Reject("id")   # partial effect allowed
            del M.edges[e]
    elif name=="remove_node_from_edge":
        e,n,rem=op[1:]
        if e not in M.edges or n not in M.nodes or n not in M.edges[e][0]: raise Reject("id")
        M.edges[e][0].discard(n)
        if not M.edges[e][0] and rem: del M.edges[e]
    elif name=="update":
        if op[2]: apply_model(M,("add_nodes_from",op[2],{}),fresh)
        if op[1]: apply_model(M,("add_edges_from",1,op[1],{}),fresh)
    elif name=="clear":
        M.nodes.clear(); M.edges.clear()
        if op[1]: M.net.clear()
    elif name=="clear_edges":
        M.edges.clear()
    elif name=="merge_duplicate_edges":
        rename,rule,mult=op[1:]
        groups=collections.OrderedDict()
        for e,(m,a) in M.edges.items(): groups.setdefault(frozenset(m),[]).append(e)
        new=[]; dups=[]
        for m,ids in groups.items():
            if len(ids)>1:
                dups+=ids
                if rename=="first": nid=sorted(ids)[0]
                elif rename=="tuple": nid=tuple(sorted(ids))
                else: nid=None
                if rule=="first": at=dict(M.edges[min(ids)][1])
                else:
                    fields={f for i in ids for f in M.edges[i][1]}
                    sa={f:{M.edges[i][1].get(f) for i in ids} for f in fields}
                    at=sa if rule=="union" else {f:(None if len(v)!=1 else next(iter(v))) for f,v in sa.items()}
                if mult is not None: at[mult]=len(ids)
                new.append((m,nid,at))
        for e in dups: del M.edges[e]
        for m,nid,at in new: m_add_edge(M,m,nid,at,fresh)
    else: raise AssertionError(name)

def run(seed, nsteps=25, strkind=False, verbose=False):
    r=random.Random(seed)
    nodes=["a","b","c","d","e"] if strkind else [0,1,2,3,4,5]
    eids=[0,1,2,3,5,7,"x","y"]
    H=xgi.Hypergraph(); M=Model(); hist=[]
    for step in range(nsteps):
        op=gen_op(r,nodes,eids); hist.append(op)
        before=real_snap(H); before_ids=set(H._edge)
        exc=None
        try: apply_real(H,op)
        except Exception as e: exc=e
        errs=integrity(H)
        if errs: return ("C01",seed,step,op,errs[:3],repr(exc))
        # model
        if op[0]=="double_edge_swap":
            after=real_snap(H)
            if exc is None:
                n1,n2,e1,e2=op[1:]
                if {e:len(m) for e,(m,a) in before[1].items()}!={e:len(m) for e,(m,a) in after[1].items()}: return ("C05-swap-size",seed,step,op)
                deg=lambda s: collections.Counter(n for e,(m,a) in s[1].items() for n in m)
                if deg(before)!=deg(after): return ("C05-swap-deg",seed,step,op)
                if before[0]!=after[0] or {e:a for e,(m,a) in before[1].items()}!={e:a for e,(m,a) in after[1].items()}: return ("C05-swap-attr",seed,step,op)
                if n1 not in before[1][e1][0] or n2 not in before[1][e2][0]: return ("C05-swap-accepted-nonmember",seed,step,op)
                if e1!=e2 and n1!=n2:
                    if after[1][e1][0]!=(before[1][e1][0]-{n1})|{n2} or after[1][e2][0]!=(before[1][e2][0]-{n2})|{n1}: return ("C05-swap-wrong",seed,step,op)
                for e in before[1]:
                    if e not in (e1,e2) and before[1][e]!=after[1][e]: return ("C05-swap-other-edge-changed",seed,step,op)
            else:
                if not isinstance(exc,(XGIError,IDNotFound)): return ("C05-swap-wrong-exc",seed,step,op,repr(exc))
                if before!=after: return ("C05-swap-exc-changed",seed,step,op,repr(exc))
            M=Model(); M.nodes={n:dict(a) for n,a in after[0].items()}; M.edges={e:[set(m),dict(a)] for e,(m,a) in after[1].items()}; M.net=dict(after[2])
            continue
        if op[0]=="random_edge_shuffle":
            after=real_snap(H)
            # degree/size/ids/attrs preserved
            if exc is None:
                if {e:len(m) for e,(m,a) in before[1].items()}!={e:len(m) for e,(m,a) in after[1].items()}: return ("C05-shuffle-size",seed,step,op)
                deg=lambda s: collections.Counter(n for e,(m,a) in s[1].items() for n in m)
                if deg(before)!=deg(after): return ("C05-shuffle-deg",seed,step,op)
                if before[0]!=after[0] or {e:a for e,(m,a) in before[1].items()}!={e:a for e,(m,a) in after[1].items()}: return ("C05-shuffle-attr",seed,step,op)
            else:
                if before!=after: return ("C05-shuffle-exc-changed",seed,step,op,repr(exc))
            M=Model(); M.nodes={n:dict(a) for n,a in after[0].items()}; M.edges={e:[set(m),dict(a)] for e,(m,a) in after[1].items()}; M.net=dict(after[2])
            continue
        new_ids=[e for e in H._edge if e not in before_ids]
        # automatic ids: those new ids not explicitly named by op -> give to model in order
        explicit=set()
        if op[0]=="add_edge" and op[2] is not None: explicit.add(op[2])
        if op[0]=="add_edges_from":
            if op[1]==5: explicit|=set(op[2])
            elif op[1] in (2,4): explicit|={x[1] for x in op[2]}
        if op[0]=="add_node_to_edge": explicit.add(op[1])
        auto=[e for e in new_ids if e not in explicit or e in before_ids]
        if op[0]=="merge_duplicate_edges" and op[1]!="new": auto=[]
        fresh=iter(auto)
        Mb=copy.deepcopy(M); mexc=None
        try: apply_model(M,op,fresh)
        except Reject as e: mexc=e
        except StopIteration: return ("C04/05-model-needs-more-fresh-ids",seed,step,op,new_ids)
        except TypeError as e: mexc=e
        if mexc is not None:
            if exc is None: return ("C05-model-rejects-real-accepts",seed,step,op,repr(mexc))
            if isinstance(mexc,Reject) and not isinstance(exc,(XGIError,IDNotFound)): return ("C05-wrong-exc-type",seed,step,op,repr(exc))
            # partial effects allowed for remove_edges_from; resync
            if op[0]=="remove_edges_from":
                pass
            else:
                M=Mb
                if real_snap(H)!=before: return ("C05-rejected-but-changed",seed,step,op,repr(exc))
            after=real_snap(H)
            if op[0]=="remove_edges_from" and after!=M.snap(): return ("C05-partial-mismatch",seed,step,op)
            continue
        if exc is not None: return ("C05-real-raises-model-accepts",seed,step,op,repr(exc))
        if real_snap(H)!=M.snap():
            a,b=real_snap(H),M.snap()
            return ("C05-mismatch",seed,step,op,[ (k,a[i].get(k),b[i].get(k)) for i in (0,1) for k in set(a[i])|set(b[i]) if a[i].get(k)!=b[i].get(k)][:4], a[2],b[2])
        # C04 freshness
        for e in auto:
            if e in before_ids: return ("C04-auto-id-not-fresh",seed,step,op,e)
    return None

if __name__=="__main__":
    print(xgi.__file__)
    N=int(sys.argv[1]); res=collections.Counter(); ex={}
    for s in range(N):
        try: out=run(s, strkind=(s%3==0))
        except Exception as e:
            out=("HARNESS",s,traceback.format_exc()[-600:])
        if out:
            key=(out[0], out[3][0] if len(out)>3 and isinstance(out[3],tuple) else None)
            res[key]+=1; ex.setdefault(key,out)
    for k,v in res.most_common(): print(v,k); print("   ",ex[k])
