import xgi, warnings, random, numpy as np, itertools, collections, traceback, sys
from scipy.sparse import issparse
warnings.simplefilter("ignore")
def rand_h(r, allow_empty=False):
    kind=r.choice(["int","str","perm"])
    n=r.randint(0,6)
    nodes=list(range(n)) if kind!="str" else [chr(97+i) for i in range(n)]
    if kind=="perm": nodes=[x*3+1 for x in nodes]; r.shuffle(nodes)
    H=xgi.Hypergraph(); H.add_nodes_from(nodes)
    m=r.randint(0,6)
    ids=list(range(m)); 
    if r.random()<0.5: ids=[i*2+1 for i in ids]; r.shuffle(ids)
    if r.random()<0.3: ids=["e%d"%i for i in ids]
    for i in ids:
        if not nodes: break
        k=r.choice([1,2,2,3,3,4]); mem=r.sample(nodes,min(k,len(nodes)))
        H.add_edge(mem,idx=i)
    return H
def dense(A): return A.toarray() if issparse(A) else np.asarray(A)
fails=collections.Counter(); ex={}
def fail(k,*info):
    fails[k]+=1; ex.setdefault(k,info)
def check(H,r):
    nodes=list(H.nodes); edges=list(H.edges); mem=H.edges.members(dtype=dict)
    n=len(nodes)
    for order in [None,0,1,2,3]:
        for sparse in [True,False]:
            I,rd,cd=xgi.incidence_matrix(H,order=order,sparse=sparse,index=True)
            I=dense(I)
            sel=[e for e in edges if order is None or len(mem[e])==order+1]
            if not sel or not nodes:
                if I.shape!=(0,0) and I.shape!=(n,0): fail("inc-empty-shape",order,sparse,I.shape)
            else:
                if I.shape!=(n,len(sel)): fail("inc-shape",order,sparse,I.shape,n,len(sel)); continue
                for i in range(n):
                    for j in range(len(sel)):
                        want=1 if rd[i] in mem[cd[j]] else 0
                        if I[i,j]!=want: fail("inc-entry",order); break
                if set(cd.values())!=set(sel) or set(rd.values())!=set(nodes): fail("inc-index",order)
        for s in [1,2,3]:
            for weighted in [False,True]:
                outs=[]
                for sparse in [True,False]:
                    try:
                        A,rd=xgi.adjacency_matrix(H,order=order,sparse=sparse,s=s,weighted=weighted,index=True)
                    except Exception as e:
                        fail("adj-exc",type(e).__name__,str(e)[:80],order,s,weighted,sparse, H.edges.members(dtype=dict), list(H.nodes)); continue
                    A=dense(A); outs.append(A)
                    sel=[e for e in edges if order is None or len(mem[e])==order+1]
                    if n==0:
                        if A.shape!=(0,0): fail("adj-shape-empty",A.shape)
                        continue
                    if A.shape!=(n,n): fail("adj-shape",A.shape,n,order,s,weighted,sparse); continue
                    pos={v:k for k,v in rd.items()} if rd else {v:i for i,v in enumerate(nodes)}
                    if not rd and sel: fail("adj-noindex")
                    for a in nodes:
                        for b in nodes:
                            c=0 if a==b else sum(1 for e in sel if a in mem[e] and b in mem[e])
                            want=(c if weighted else 1) if c>=s else 0
                            if a==b: want=0
                            if A[pos[a],pos[b]]!=want: fail("adj-entry",order,s,weighted,sparse,A[pos[a],pos[b]],want); break
                if len(outs)==2 and outs[0].shape==outs[1].shape and not np.array_equal(outs[0],outs[1]): fail("adj-sparse-dense")
        # degree matrix
        K,rd=xgi.degree_matrix(H,order=order,index=True)
        sel=[e for e in edges if order is None or len(mem[e])==order+1]
        want=[sum(1 for e in sel if v in mem[e]) for v in nodes]
        if list(np.asarray(K).ravel())!=want: fail("deg",order,list(K),want)
        for sparse in [True,False]:
            P,cd=xgi.intersection_profile(H,order=order,sparse=sparse,index=True)
            P=dense(P)
            if sel and nodes:
                for i in range(len(sel)):
                    for j in range(len(sel)):
                        if P[i,j]!=len(mem[cd[i]]&mem[cd[j]]): fail("interp"); break
    for sparse in [True,False]:
        W,rd=xgi.clique_motif_matrix(H,sparse=sparse,index=True); W=dense(W)
    for order in [1,2,3]:
        try:
            B,rd=xgi.adjacency_tensor(H,order,normalized=False,index=True)
        except Exception as e: fail("tensor-exc",type(e).__name__,str(e)[:60]); continue
        sel=[e for e in edges if len(mem[e])==order+1]
        if n and sel:
            pos={v:k for k,v in rd.items()}
            for tup in itertools.product(nodes,repeat=order+1):
                want=1 if len(set(tup))==order+1 and any(set(tup)==mem[e] for e in sel) else 0
                if B[tuple(pos[t] for t in tup)]!=want: fail("tensor-entry"); break
    # laplacians
    for order in [1,2,3]:
        for rescale in [False,True]:
            outs=[]
            for sparse in [False,True]:
                try: L,rd=xgi.laplacian(H,order=order,sparse=sparse,rescale_per_node=rescale,index=True)
                except Exception as e: fail("lap-exc",type(e).__name__,str(e)[:80],order,sparse); continue
                L=dense(L); outs.append(L)
                if n==0: continue
                if L.shape!=(n,n): fail("lap-shape",L.shape,n); continue
                if not np.allclose(L.sum(axis=1),0): fail("lap-rowsum")
                if not np.allclose(L,L.T): fail("lap-sym")
                if np.linalg.eigvalsh(L).min()<-1e-9: fail("lap-psd")
                sel=[e for e in edges if len(mem[e])==order+1]
                pos={v:k for k,v in rd.items()} if rd else {v:i for i,v in enumerate(nodes)}
                for a in nodes:
                    for b in nodes:
                        if a==b: want=order*sum(1 for e in sel if a in mem[e])
                        else: want=-sum(1 for e in sel if a in mem[e] and b in mem[e])
                        if rescale: want=want/order
                        if abs(L[pos[a],pos[b]]-want)>1e-9: fail("lap-entry"); break
            if len(outs)==2 and outs[0].shape==outs[1].shape and not np.allclose(outs[0],outs[1]): fail("lap-sparse-dense")
    for sparse in [False,True]:
        try:
            L,rd=xgi.multiorder_laplacian(H,[1,2,3],[1,0.5,2],sparse=sparse,index=True); L=dense(L)
            if n:
                if not np.allclose(L.sum(axis=1),0): fail("mlap-rowsum")
                if not np.allclose(L,L.T): fail("mlap-sym")
                if np.linalg.eigvalsh(L).min()<-1e-9: fail("mlap-psd")
        except Exception as e: fail("mlap-exc",type(e).__name__,str(e)[:80],sparse,n,len(edges))
    if n and not list(H.nodes.isolates()) and all(len(mem[e])>0 for e in edges):
        outs=[]
        for sparse in [False,True]:
            try:
                L,rd=xgi.normalized_hypergraph_laplacian(H,sparse=sparse,index=True); L=dense(L); outs.append(L)
                if not np.allclose(L,L.T): fail("nlap-sym")
                if np.linalg.eigvalsh(L).min()<-1e-9: fail("nlap-psd")
                Im=np.array([[1 if v in mem[e] else 0 for e in edges] for v in nodes],float)
                Dv=Im.sum(1); De=Im.sum(0)
                want=np.eye(n)-np.diag(Dv**-0.5)@Im@np.diag(1/De)@Im.T@np.diag(Dv**-0.5)
                pos=[ {v:k for k,v in rd.items()}[v] for v in nodes]
                if not np.allclose(L[np.ix_(pos,pos)],want): fail("nlap-entry")
            except Exception as e: fail("nlap-exc",type(e).__name__,str(e)[:80])
        if len(outs)==2 and not np.allclose(outs[0],outs[1]): fail("nlap-sparse-dense")
N=int(sys.argv[1])
for s in range(N):
    r=random.Random(s); H=rand_h(r)
    try: check(H,r)
    except Exception as e: fail("HARNESS",traceback.format_exc()[-500:])
for k,v in fails.most_common(): print(v,k,ex[k])
print("done")
