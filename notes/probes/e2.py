import warnings, xgi, pickle, numpy as np, networkx as nx, tempfile, os
warnings.simplefilter("ignore")
def t(name, f):
    try: print(name, "->", f())
    except Exception as e: print(name, "EXC", type(e).__name__, e)
H=xgi.Hypergraph([[1,2],[2,3]]); H.remove_node_from_edge(0,1,remove_empty=False); H.remove_node_from_edge(0,2,remove_empty=False)
t("maximal w/ empty", lambda: list(H.edges.maximal()))
t("maximal strict w/ empty", lambda: list(H.edges.maximal(strict=True)))
# C09
H1=xgi.Hypergraph({0:[1,2,3],1:[3,4],2:[4,5,1]}); H2=xgi.Hypergraph({2:[1,2,3],0:[3,4],1:[4,5,1]})
t("lcc ids 0..", lambda: xgi.local_clustering_coefficient(H1)); t("lcc permuted", lambda: xgi.local_clustering_coefficient(H2))
H3=xgi.Hypergraph({'a':[1,2,3],'b':[3,4],'c':[4,5,1]}); t("lcc str", lambda: xgi.local_clustering_coefficient(H3))
# C10 bipartite order
G=nx.Graph(); G.add_nodes_from(['a','b'],bipartite=1); G.add_nodes_from([1,2,3],bipartite=0); G.add_edges_from([(1,'a'),(2,'a'),(3,'b')])
t("from_bip edges-first", lambda: (xgi.from_bipartite_graph(G).edges.members(dtype=dict), list(xgi.from_bipartite_graph(G).nodes)))
S=xgi.SimplicialComplex([[1,2,3]], name="x"); t("SC hif attrs", lambda: xgi.from_hif_dict(xgi.to_hif_dict(S))._net_attr)
t("H->SC attrs", lambda: xgi.SimplicialComplex(xgi.Hypergraph([[1,2]],name="y"))._net_attr)
# C11
d=tempfile.mkdtemp()
H=xgi.Hypergraph([[0,1,2]]); xgi.write_incidence_matrix(H, d+"/i.txt"); t("read inc nx1", lambda: xgi.read_incidence_matrix(d+"/i.txt").edges.members())
H=xgi.Hypergraph([[0],[0]]); xgi.write_incidence_matrix(H, d+"/i.txt"); t("read inc 1xm", lambda: xgi.read_incidence_matrix(d+"/i.txt").edges.members())
H=xgi.Hypergraph([[0]]); xgi.write_incidence_matrix(H, d+"/i.txt"); t("read inc 1x1", lambda: xgi.read_incidence_matrix(d+"/i.txt").edges.members())
# C12
H=xgi.Hypergraph([[1,2]]); H.set_edge_attributes({0:{'weight':10}})
t("normlap weighted eig", lambda: np.linalg.eigvalsh(xgi.normalized_hypergraph_laplacian(H,weighted=True,sparse=False)))
# C16
t("HSBM p=1", lambda: xgi.uniform_HSBM(4,2,np.array([[1,0.5],[0.5,1]]),[2,2]).edges.members())
# C17
H=xgi.Hypergraph([[0,1,2],[2,3],[3,4,5],[5,6],[6,7,0],[1,4]])
t("spectral", lambda: [tuple(xgi.spectral_clustering(H,2,seed=1).values()) for _ in range(4)])
# C18
for cls,ed in ((xgi.Hypergraph,[[1,2],[2,3,4]]),(xgi.SimplicialComplex,[[1,2],[2,3,4]])):
    H=cls(ed); H.freeze()
    t(cls.__name__+" frozen clear_edges", lambda: (H.clear_edges(), H.num_edges))
    H=cls(ed); H.freeze()
    t(cls.__name__+" frozen swap", lambda: (H.double_edge_swap(1,3,0,1), H.edges.members()))
D=xgi.DiHypergraph([([1],[2])]); D.freeze(); t("Di frozen add_node_to_edge", lambda: (D.add_node_to_edge(0,5,"in"), D.edges.dimembers()))
D=xgi.DiHypergraph([([1],[2])]); D.freeze(); t("Di frozen copy frozen?", lambda: (D.copy().is_frozen, D.copy().add_node(7)))
H=xgi.Hypergraph([[1,2]]); H.freeze(); t("H frozen merge_dup", lambda: H.merge_duplicate_edges())
H=xgi.Hypergraph([[1,2]]); H.freeze(); t("H frozen update", lambda: H.update(edges=[[5,6]]))
H=xgi.Hypergraph([[1,2]]); H.freeze(); t("H frozen cleanup", lambda: H.cleanup())
H=xgi.Hypergraph([[1,2]]); H.freeze(); t("H frozen convert_labels in place", lambda: xgi.convert_labels_to_integers(H,in_place=True))
H=xgi.Hypergraph([[1,2]]); H.freeze(); t("H frozen shuffle", lambda: (H.random_edge_shuffle(), ))
H=xgi.Hypergraph([[1,2],[3,4]]); H.freeze(); t("H frozen shuffle2", lambda: (H.random_edge_shuffle(), H.edges.members()))
H=xgi.Hypergraph([[1,2],[3,4]]); H.freeze(); t("H frozen set_attr", lambda: (H.set_edge_attributes(3,name="w"), H.edges[0]))
H=xgi.Hypergraph([[1,2],[3,4]]); H.freeze(); t("pickle frozen", lambda: (pickle.loads(pickle.dumps(H)).is_frozen))
