import xgi, warnings, numpy as np, networkx as nx, pandas as pd, pickle, tempfile, os, copy
warnings.simplefilter("ignore")
print(xgi.__file__)
tmp=tempfile.mkdtemp()
def wr(name,text):
    p=os.path.join(tmp,name); open(p,"w").write(text); return p
G=nx.Graph(); G.add_nodes_from([1,2,3],bipartite=0); G.add_nodes_from([0,5],bipartite=1); G.add_edges_from([(1,0),(2,0),(3,5)])
DG=nx.DiGraph(); DG.add_nodes_from([1,2,3],bipartite=0); DG.add_nodes_from([0,5],bipartite=1); DG.add_edges_from([(1,0),(0,2),(3,5)])
base=xgi.Hypergraph({5:[1,2],0:[2,3],3:[3,4]})
baseD=xgi.DiHypergraph({5:([1],[2]),0:([2],[3])})
baseS=xgi.SimplicialComplex({5:[1,2,3],0:[3,4]})
hp=os.path.join(tmp,"h.json"); xgi.write_hif(base,hp); jp=os.path.join(tmp,"j.json"); xgi.write_json(base,jp)
srcs={
 "ctor list":lambda: xgi.Hypergraph([[1,2],[2,3]]),
 "ctor dict desc":lambda: xgi.Hypergraph({5:[1,2],0:[2,3]}),
 "ctor dict 0":lambda: xgi.Hypergraph({0:[1,2]}),
 "ctor df":lambda: xgi.Hypergraph(pd.DataFrame([[1,0],[2,0],[3,2]])),
 "ctor ndarray":lambda: xgi.Hypergraph(np.array([[1,0],[1,1],[0,1]])),
 "ctor H":lambda: xgi.Hypergraph(base),
 "ctor SC":lambda: xgi.Hypergraph(baseS),
 "ctor DH":lambda: xgi.Hypergraph(baseD),
 "from_incidence_matrix":lambda: xgi.from_incidence_matrix(np.array([[1,0],[1,1],[0,1]])),
 "from_bipartite_edgelist":lambda: xgi.from_bipartite_edgelist([(1,0),(2,0),(3,2)]),
 "from_bipartite_graph":lambda: xgi.from_bipartite_graph(G),
 "from_hif_dict":lambda: xgi.from_hif_dict(xgi.to_hif_dict(base)),
 "from_hypergraph_dict":lambda: xgi.from_hypergraph_dict(xgi.to_hypergraph_dict(base),nodetype=int,edgetype=int),
 "from_hyperedge_dict":lambda: xgi.from_hyperedge_dict({5:[1,2],0:[2,3]}),
 "from_pandas":lambda: xgi.from_bipartite_pandas_dataframe(pd.DataFrame([[1,0],[2,0],[3,2]])),
 "read_hif":lambda: xgi.read_hif(hp),
 "read_json":lambda: xgi.read_json(jp,nodetype=int,edgetype=int),
 "read_bipartite_edgelist":lambda: xgi.read_bipartite_edgelist(wr("b.txt","1 0\n2 0\n3 2\n"),nodetype=int,edgetype=int),
 "read_edgelist":lambda: xgi.read_edgelist(wr("e.txt","1 2\n2 3\n"),nodetype=int),
 "read_incidence":lambda: xgi.read_incidence_matrix(wr("i.txt","1 0\n1 1\n0 1\n")),
 "copy":lambda: base.copy(), "pickle":lambda: pickle.loads(pickle.dumps(base)), "deepcopy":lambda: copy.deepcopy(base),
 "relabel":lambda: xgi.convert_labels_to_integers(base), "dual":lambda: base.dual(), "lshift":lambda: base<<base,
 "sub.copy":lambda: xgi.subhypergraph(base,nodes=[1,2,3]).copy(), "cleanup":lambda: base.cleanup(in_place=False,relabel=False), "lch":lambda: xgi.largest_connected_hypergraph(base),
 "merge new":lambda: (lambda H:(H.merge_duplicate_edges(rename="new"),H)[1])(xgi.Hypergraph({4:[1,2],0:[1,2],1:[3]})),
 "complement":lambda: xgi.complement(xgi.Hypergraph([[1,2],[3]])), "complete":lambda: xgi.complete_hypergraph(4,order=1), "random":lambda: xgi.fast_random_hypergraph(6,[0.5],seed=1),
 "chung_lu":lambda: xgi.chung_lu_hypergraph({i:2 for i in range(5)},{i:2 for i in range(5)},seed=1),
 "dcsbm":lambda: xgi.dcsbm_hypergraph({i:2 for i in range(4)},{i:2 for i in range(4)},{i:i%2 for i in range(4)},{i:i%2 for i in range(4)},np.array([[3,1],[1,3]]),seed=2),
 "ws":lambda: xgi.watts_strogatz_hypergraph(8,3,2,1,0.5,seed=1), "shuffle":lambda: xgi.shuffle_hyperedges(base,1,1.0,seed=1), "node_swap":lambda: xgi.node_swap(base,1,4),
 "from_max_simplices":lambda: xgi.from_max_simplices(baseS), "cut_to_order":lambda: xgi.cut_to_order(base,1),
 "add_node_to_edge":lambda: (lambda H:(H.add_node_to_edge(0,1),H.add_node_to_edge(3,1),H)[2])(xgi.Hypergraph()),
 "D ctor":lambda: xgi.DiHypergraph({5:([1],[2]),0:([2],[3])}), "D copy":lambda: baseD.copy(), "D from bip":lambda: xgi.from_bipartite_graph(DG), "D hif":lambda: xgi.from_hif_dict(xgi.to_hif_dict(baseD)),
 "D bel":lambda: xgi.from_bipartite_edgelist([(1,0,"in"),(2,0,"out")]), "D relabel":lambda: xgi.convert_labels_to_integers(baseD), "D ctor D":lambda: xgi.DiHypergraph(baseD), "D pickle":lambda: pickle.loads(pickle.dumps(baseD)),
 "S ctor":lambda: xgi.SimplicialComplex({5:[1,2,3],0:[3,4]}), "S copy":lambda: baseS.copy(), "S hif":lambda: xgi.from_hif_dict(xgi.to_hif_dict(baseS)), "S from H":lambda: xgi.SimplicialComplex(base), "S relabel":lambda: xgi.convert_labels_to_integers(baseS),
 "S flag":lambda: xgi.flag_complex(nx.complete_graph(4)), "S rsc":lambda: xgi.random_simplicial_complex(5,[0.5,0.5],seed=1), "S kskel":lambda: xgi.k_skeleton(baseS,1), "S ctor S":lambda: xgi.SimplicialComplex(baseS), "S df":lambda: xgi.SimplicialComplex(pd.DataFrame([[1,0],[2,0],[3,0],[3,2],[4,2]])),
}
for nm,mk in srcs.items():
    try: H=mk()
    except Exception as e: print(nm,"BUILD-EXC",type(e).__name__,str(e)[:80]); continue
    bad=[]
    for i in range(4):
        before={e:(set(m["in"])|set(m["out"]) if isinstance(m,dict) else set(m)) for e,m in H._edge.items()}
        if isinstance(H,xgi.DiHypergraph): H.add_edge(([100+i],[200+i]))
        elif isinstance(H,xgi.SimplicialComplex): H.add_simplex([100+i,200+i,300+i])
        else: H.add_edge([100+i,200+i])
        after={e:(set(m["in"])|set(m["out"]) if isinstance(m,dict) else set(m)) for e,m in H._edge.items()}
        for e in before:
            if e not in after or after[e]!=before[e]: bad.append((i,e))
        exp=1 if not isinstance(H,xgi.SimplicialComplex) else 4
        if len(after)!=len(before)+exp: bad.append((i,"count",len(before),len(after)))
    print(nm, "OVERWRITE "+str(bad[:3]) if bad else "ok")
