import xgi, warnings, random, numpy as np, itertools, collections, traceback, sys, networkx as nx
from proto_c12 import rand_h
warnings.simplefilter("ignore")
fails=collections.Counter(); ex={}
def fail(k,*info):
    fails[k]+=1; ex.setdefault(k,info)
def brute_sed(H,min_size,excl):
    mem=[frozenset(m) for m in H.edges.members()]
    es=set(mem)
    maxes=[e for e in es if not any(e<f for f in es)]
    maxes=[e for e in maxes if len(e)>=min_size+excl]
    missing=set()
    for e in maxes:
        for k in range(min_size,len(e)):
            for c in itertools.combinations(e,k):
                if frozenset(c) not in es: missing.add(frozenset(c))
    return len(missing), maxes
def check(H,r):
    nodes=list(H.nodes); edges=list(H.edges); mem=H.edges.members(dtype=dict); n=len(nodes)
    if n==0: return
    # bipartite graph reference
    B=nx.Graph(); B.add_nodes_from(("n",v) for v in nodes); B.add_nodes_from(("e",e) for e in edges)
    for e in edges:
        for v in mem[e]: B.add_edge(("n",v),("e",e))
    comps=[frozenset(x[1] for x in c if x[0]=="n") for c in nx.connected_components(B)]
    comps=set(c for c in comps if c)
    got=[frozenset(c) for c in xgi.connected_components(H)]
    if set(got)!=comps or len(got)!=len(comps): fail("cc",got,comps)
    if xgi.number_connected_components(H)!=len(comps): fail("ncc")
    if xgi.is_connected(H)!=(len(comps)==1): fail("isconn")
    lcc=xgi.largest_connected_component(H)
    if frozenset(lcc) not in comps or len(lcc)!=max(map(len,comps)): fail("lcc")
    for v in nodes:
        if frozenset(xgi.node_connected_component(H,v)) != next(c for c in comps if v in c): fail("ncomp")
    # clique expansion
    G=nx.Graph(); G.add_nodes_from(nodes)
    for e in edges:
        for a,b in itertools.combinations(mem[e],2): G.add_edge(a,b)
    sp=dict(nx.all_pairs_shortest_path_length(G))
    for src,d in xgi.shortest_path_length(H):
        for v in nodes:
            want=sp[src].get(v,np.inf)
            if d[v]!=want: fail("spl",src,v,d[v],want); break
    cc=xgi.clustering_coefficient(H); ref=nx.clustering(G)
    for v in nodes:
        if abs(cc[v]-ref[v])>1e-9: fail("clust",v,cc[v],ref[v]); break
    try:
        TG=xgi.to_graph(H)
        if set(TG.nodes)!=set(nodes) or set(map(frozenset,TG.edges))!=set(map(frozenset,G.edges)): fail("to_graph",sorted(TG.nodes,key=str),nodes)
    except Exception as e: fail("to_graph-exc",type(e).__name__,str(e)[:80],n,len(edges))
    for s in [1,2,3]:
        for w in [None,"absolute","normalized"]:
            if w=="normalized" and any(len(mem[e])==0 for e in edges): continue
            LG=xgi.to_line_graph(H,s=s,weights=w)
            if set(LG.nodes)!=set(edges): fail("lg-nodes")
            want={}
            for a,b in itertools.combinations(edges,2):
                k=len(mem[a]&mem[b])
                if k>=s: want[frozenset((a,b))]=k if w!="normalized" else k/min(len(mem[a]),len(mem[b]))
            gotE={frozenset((a,b)):d for a,b,d in LG.edges(data=True)}
            if set(gotE)!=set(want): fail("lg-edges",s,w)
            elif w:
                for k_ in want:
                    if abs(gotE[k_]["weight"]-want[k_])>1e-12: fail("lg-weight")
    BG,nd,ed=xgi.to_bipartite_graph(H,index=True)
    if set(nd.values())!=set(nodes) or set(ed.values())!=set(edges) or set(nd)&set(ed): fail("bip-index")
    gotI={(nd[a],ed[b]) if a in nd else (nd[b],ed[a]) for a,b in BG.edges}
    if gotI!={(v,e) for e in edges for v in mem[e]}: fail("bip-inc")
    if BG.number_of_nodes()!=n+len(edges): fail("bip-nodes")
    if all(len(mem[e])>0 for e in edges):
        for st in ["all","immediate","empirical"]:
            D=xgi.to_encapsulation_dag(H,subset_types=st)
            if set(D.nodes)!=set(edges): fail("dag-nodes",st)
            allp={(a,b) for a in edges for b in edges if a!=b and mem[b]<mem[a]}
            imm={(a,b) for a,b in allp if len(mem[a])==len(mem[b])+1}
            g=set(D.edges)
            if st=="all" and g!=allp: fail("dag-all",g,allp)
            if st=="immediate" and g!=imm: fail("dag-imm")
            if st=="empirical" and not (imm<=g<=allp): fail("dag-emp")
    # C15
    if all(len(mem[e])>0 for e in edges) and len(set(map(frozenset,mem.values())))==len(edges) and edges:
        for ms in [1,2,3]:
            for ex_ in [True,False]:
                try:
                    got=xgi.simplicial_edit_distance(H,min_size=ms,exclude_min_size=ex_,normalize=False)
                    want,maxes=brute_sed(H,ms,ex_)
                    if not maxes:
                        if not (isinstance(got,float) and np.isnan(got)): fail("sed-nan",got)
                    elif got!=want: fail("sed",ms,ex_,got,want,list(mem.values()))
                    es=set(map(frozenset,mem.values()))
                    elig=[e for e in es if len(e)>=ms+ex_]
                    sf=xgi.simplicial_fraction(H,ms,ex_)
                    if elig:
                        ws=sum(1 for e in elig if all(frozenset(c) in es for k in range(ms,len(e)) for c in itertools.combinations(e,k)))/len(elig)
                        if abs(sf-ws)>1e-12: fail("sf",sf,ws)
                    elif not np.isnan(sf): fail("sf-nan")
                    mf=xgi.mean_face_edit_distance(H,ms,ex_)
                    if maxes:
                        tot=0
                        for e in maxes:
                            subs=[frozenset(c) for k in range(ms,len(e)) for c in itertools.combinations(e,k)]
                            miss=sum(1 for c in subs if c not in es)
                            tot+= (miss/len(subs) if subs else miss)
                        wm=tot/len(maxes)
                        if abs(mf-wm)>1e-12: fail("mfed",mf,wm)
                    for f in (xgi.edit_simpliciality,xgi.face_edit_simpliciality,xgi.simplicial_fraction):
                        v=f(H,ms,ex_)
                        if not (np.isnan(v) or -1e-12<=v<=1+1e-12): fail("range",f.__name__,v)
                except Exception as e: fail("simp-exc",type(e).__name__,str(e)[:80])
N=int(sys.argv[1])
for s in range(N):
    r=random.Random(s); H=rand_h(r)
    try: check(H,r)
    except Exception as e: fail("HARNESS",traceback.format_exc()[-700:])
for k,v in fails.most_common(): print(v,k,str(ex[k])[:400])
print("done")
