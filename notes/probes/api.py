import inspect, xgi, warnings
warnings.simplefilter("ignore")
rows=[]
for name in sorted(dir(xgi)):
    if name.startswith("_"): continue
    obj=getattr(xgi,name)
    if inspect.ismodule(obj) or inspect.isclass(obj): continue
    if not callable(obj): continue
    try: sig=inspect.signature(obj)
    except Exception as e: sig="?"
    params=list(sig.parameters) if sig!="?" else []
    rows.append((obj.__module__,name,str(sig)))
for r in sorted(rows): print(*r)
print(len(rows))
