import xgi, warnings, random, numpy as np, itertools, collections, traceback, sys, networkx as nx
warnings.simplefilter("ignore")
fails=collections.Counter(); ex={}
def fail(k,*info):
    fails[k]+=1; ex.setdefault(k,info)
def check(r):
    kind=r.choice(["int","str","mixed","float"])
    n=r.randint(1,6)
    if kind=="int": nodes=r.sample(range(-3,20),n)
    elif kind=="str": nodes=[chr(97+i) for i in r.sample(range(10),n)]
    elif kind=="float": nodes=[x+0.5 for x in r.sample(range(10),n)]
    else: nodes=r.sample(range(5),min(n,5)//2+1)+[chr(97+i) for i in range(n//2)]
    S=xgi.SimplicialComplex(); S.add_nodes_from(nodes)
    for _ in range(r.randint(0,4)):
        k=r.randint(1,min(4,len(nodes)))
        mem=r.sample(nodes,k)
        if r.random()<0.5: S.add_simplex(mem, idx=r.choice(["s%d"%r.randint(0,99), 100+r.randint(0,99)]))
        else: S.add_simplex(mem)
    mem=S.edges.members(dtype=dict)
    maxo=xgi.max_edge_order(S) or 0
    ori={e:r.randint(0,1) for e in S.edges if len(mem[e])>=2} if r.random()<0.7 else None
    Bs={}
    for k in range(0,maxo+2):
        try: B,rd,cd=xgi.boundary_matrix(S,k,ori,index=True)
        except Exception as e: fail("exc",k,type(e).__name__,str(e)[:80],kind); return
        Bs[k]=(B,rd,cd)
        if k>=1:
            for j,sid in cd.items():
                col=B[:,j]; nz=np.nonzero(col)[0]
                if len(nz)!=k+1 or not np.all(np.abs(col[nz])==1): fail("col",k); continue
                faces=set()
                for i in nz:
                    f=rd[i]
                    faces.add(frozenset([f]) if k==1 else frozenset(mem[f]))
                want={frozenset(c) for c in itertools.combinations(mem[sid],k)}
                if faces!=want: fail("faces",k)
    for k in range(1,maxo+1):
        P=Bs[k][0]@Bs[k+1][0]
        if P.size and not np.all(P==0): fail("BB",k,kind)
    for k in range(0,maxo+1):
        L=xgi.hodge_laplacian(S,k,ori)
        if L.size:
            if not np.allclose(L,L.T): fail("hodge-sym")
            if np.linalg.eigvalsh(L).min()<-1e-9: fail("hodge-psd")
    L0=xgi.hodge_laplacian(S,0,ori)
    kd=sum(1 for v in np.linalg.eigvalsh(L0) if abs(v)<1e-9)
    if kd!=xgi.number_connected_components(S): fail("kernel",kd)
N=int(sys.argv[1])
for s in range(N):
    r=random.Random(s)
    try: check(r)
    except Exception as e: fail("HARNESS",traceback.format_exc()[-700:])
for k,v in fails.most_common(): print(v,k,str(ex[k])[:600])
print("done")
