import inspect, xgi, warnings, copy, pickle, random, numpy as np, tempfile, os, itertools, traceback, collections
import matplotlib; matplotlib.use("Agg")
import matplotlib.pyplot as plt
warnings.simplefilter("ignore")
def snap(H):
    if isinstance(H, xgi.DiHypergraph):
        return (list(H._node), {n:(frozenset(v["in"]),frozenset(v["out"])) for n,v in H._node.items()},
                list(H._edge), {e:(frozenset(v["in"]),frozenset(v["out"])) for e,v in H._edge.items()},
                copy.deepcopy(dict(H._node_attr)), copy.deepcopy(dict(H._edge_attr)), copy.deepcopy(H._net_attr),
                next(copy.copy(H._edge_uid)), H.is_frozen, [list(v["in"]) for v in H._edge.values()])
    return (list(H._node), {n:frozenset(v) for n,v in H._node.items()}, list(H._edge), {e:frozenset(v) for e,v in H._edge.items()},
            copy.deepcopy(dict(H._node_attr)), copy.deepcopy(dict(H._edge_attr)), copy.deepcopy(H._net_attr),
            next(copy.copy(H._edge_uid)), H.is_frozen, [type(v).__name__ for v in H._edge.values()])
def nets():
    H=xgi.Hypergraph(); H.add_nodes_from([9,8]); H.add_edges_from({3:[1,2,3],1:[3,4],0:[4,5,1],7:[5],8:[3,4]}); H.set_edge_attributes({3:{"weight":2,"c":[1]}}); H.set_node_attributes({1:{"x":{"y":1}}}); H["name"]="t"
    yield "H",H
    S=xgi.SimplicialComplex([[1,2,3],[3,4],[5]]); S.add_node(9); S["name"]="s"; yield "S",S
    D=xgi.DiHypergraph([([1,2],[3]),([3],[4,1]),([5],[])]); D.add_node(9); D["name"]="d"; yield "D",D
    H=xgi.Hypergraph([[0,1,2],[1,2,3],[2,3,4],[0,4]]); yield "Hconn",H
fns=[]
for name in sorted(dir(xgi)):
    if name.startswith("_"): continue
    f=getattr(xgi,name)
    if inspect.isclass(f) or inspect.ismodule(f) or not callable(f): continue
    try: ps=list(inspect.signature(f).parameters)
    except Exception: continue
    if ps and ps[0] in ("H","S","SC","net"): fns.append((name,f))
print(len(fns))
tmp=tempfile.mkdtemp()
extra={"node_connected_component":lambda H:(list(H.nodes)[0],), "edge_neighborhood":lambda H:(list(H.nodes)[0],), "single_source_shortest_path_length":lambda H:(list(H.nodes)[0],),
 "cut_to_order":lambda H:(1,), "k_skeleton":lambda H:(1,), "adjacency_tensor":lambda H:(1,), "is_possible_order":lambda H:(1,), "multiorder_laplacian":lambda H:([1,2],[1,1]),
 "shuffle_hyperedges":lambda H:(1,0.5), "node_swap":lambda H:(list(H.nodes)[0],list(H.nodes)[1]), "simulate_kuramoto":lambda H:(1,1), "draw_node_labels":lambda H:(xgi.circular_layout(H),True),
 "draw_hyperedge_labels":lambda H:(xgi.circular_layout(H),True), "edge_positions_from_barycenters":lambda H:(xgi.circular_layout(H),),
 "write_hif":lambda H:(tmp+"/a.json",),"write_json":lambda H:(tmp+"/b.json",),"write_edgelist":lambda H:(tmp+"/c.txt",),"write_bipartite_edgelist":lambda H:(tmp+"/d.txt",),"write_incidence_matrix":lambda H:(tmp+"/e.txt",),
 "write_hif_collection":None, "empirical_subsets_filter":lambda H:(xgi.to_encapsulation_dag(H),), "update_uid_counter":None, "get_network_type":lambda H:()}
res=collections.defaultdict(list)
for nname,H0 in nets():
    for name,f in fns:
        if name in extra and extra[name] is None: continue
        H=pickle.loads(pickle.dumps(H0))
        b=snap(H)
        try:
            args=extra[name](H) if name in extra else ()
            kw={}
            if "in_place" in inspect.signature(f).parameters: kw["in_place"]=False
            out=f(H,*args,**kw)
            if inspect.isgenerator(out): out=list(out)
            st="ok"
        except Exception as e:
            st="exc:"+type(e).__name__
        plt.close("all")
        a=snap(H)
        if a!=b: res["MUTATED"].append((nname,name,st,[i for i in range(len(a)) if a[i]!=b[i]]))
        else: res[st].append((nname,name))
for k,v in res.items():
    print(k,len(v)); 
    if k!="ok": 
        for x in v: print("   ",x)
