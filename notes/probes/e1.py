import warnings, xgi, pickle
warnings.simplefilter("ignore")
def inv(H):
    ok=True
    for n,es in H._node.items():
        for e in es:
            if e not in H._edge or n not in H._edge[e]: ok=False
    for e,ns in H._edge.items():
        for n in ns:
            if n not in H._node or e not in H._node[n]: ok=False
    if set(H._node)!=set(H._node_attr) or set(H._edge)!=set(H._edge_attr): ok=False
    return ok
H=xgi.Hypergraph()
try: H.add_edge([3,None])
except Exception as e: print("add_edge None:",type(e).__name__,e)
print(H._edge,H._node,H._edge_attr,inv(H))
H=xgi.Hypergraph()
try: H.add_edges_from([[3,None]])
except Exception as e: print("add_edges_from None:",type(e).__name__,e)
print(H._edge,H._node,H._edge_attr,inv(H))
H=xgi.Hypergraph()
H.add_edge([1,2],idx=0); H.add_edge([3,4]); print("idx0 then auto:",H._edge)
H=xgi.Hypergraph()
H.add_edges_from([([1,2],5),([2,3],1)]); H.add_edge([7,8]);H.add_edge([7,8]);H.add_edge([7,8]);H.add_edge([7,8]); print("decreasing:",H._edge, inv(H))
H=xgi.Hypergraph()
H.add_node_to_edge(0,1); H.add_edge([5,6]); print("ante:",H._edge,H._node, inv(H))
H=xgi.Hypergraph(); H.add_edge([]); print("empty:",H._edge)
S=xgi.SimplicialComplex(); S.add_simplex([]); print("S empty:",S._edge)
S=xgi.SimplicialComplex(); S.add_simplices_from([[1,2,3,4,5]],max_order=2); print("maxorder:",sorted(map(len,S._edge.values())))
S=xgi.SimplicialComplex(); 
try: S.add_simplex([1,None])
except Exception as e: print(type(e).__name__, e)
print(S._edge,S._node,S._edge_attr)
D=xgi.DiHypergraph([([1,2],[3]),([3],[4])]); D.remove_node(3,strong=True); print("Di strong:",D._node,D._edge)
import numpy as np
H=xgi.Hypergraph({0:[3,1,2],1:[1,5]}); print(list(H.nodes), H.nodes.degree.aspandas().index.tolist(), H.nodes.degree.aslist())
H=xgi.Hypergraph({0:['b','a','c'],1:['a','z']}); print(list(H.nodes), H.nodes.degree.aspandas().index.tolist(), H.nodes.degree.aslist())
