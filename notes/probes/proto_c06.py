import xgi, warnings, random, numpy as np, itertools, collections, traceback, sys, pickle, copy, operator
import pandas as pd
from proto_c10 import rand_net
warnings.simplefilter("ignore")
fails=collections.Counter(); ex={}
def fail(k,*info):
    fails[k]+=1; ex.setdefault(k,info)
def check(r):
    H=rand_net(r,xgi.Hypergraph)
    nv,ev=H.nodes,H.edges; deg=nv.degree; size=ev.size   # held across mutation
    for step in range(3):
        # mutate
        nodes=list(H.nodes) or [0]
        for _ in range(r.randint(0,3)):
            c=r.random()
            try:
                if c<0.4: H.add_edge(r.sample(nodes,min(len(nodes),r.randint(1,3))), idx="m%d"%r.randint(0,10**6))
                elif c<0.6 and H.num_edges: H.remove_edge(r.choice(list(H.edges)))
                elif c<0.8 and H.num_nodes>1: H.remove_node(r.choice(list(H.nodes)),strong=r.random()<0.5,remove_empty=r.random()<0.5)
                else: H.add_node("n%d"%r.randint(0,99) if isinstance(nodes[0],str) else r.randint(20,40))
            except Exception as e: fail("mut-exc",type(e).__name__)
        mem={e:set(m) for e,m in H._edge.items()}; ms={n:set(m) for n,m in H._node.items()}
        if list(nv)!=list(H._node) or list(ev)!=list(H._edge): fail("view-order")
        if deg.asdict()!={n:len(ms[n]) for n in ms}: fail("deg")
        if size.asdict()!={e:len(mem[e]) for e in mem}: fail("size")
        if ev.order.asdict()!={e:len(mem[e])-1 for e in mem}: fail("order")
        if sum(deg.aslist())!=sum(size.aslist()): fail("handshake")
        for o in [0,1,2]:
            if nv.degree(order=o).asdict()!={n:sum(1 for e in ms[n] if len(mem[e])==o+1) for n in ms}: fail("deg-order")
        for st in [deg, size, nv.degree(order=1), nv.average_neighbor_degree, ev.order(degree=1), nv.attrs("c"), nv.clustering_coefficient]:
            d=st.asdict(); l=st.aslist(); a=st.asnumpy(); p=st.aspandas()
            view=list(st.view)
            if list(d)!=view: fail("asdict-order")
            if l!=[d[k] for k in view]: fail("aslist")
            if len(a)!=len(l) or any((x!=y) and not (x!=x and y!=y) for x,y in zip(a.tolist(),l)): fail("asnumpy",a.tolist(),l)
            if list(p.index)!=view: fail("aspandas-order", list(p.index), view)
            if {k:p[k] for k in p.index}!=d and not any(isinstance(v,float) and v!=v for v in d.values()): 
                if any(p[k]!=d[k] and not (p[k]!=p[k]) for k in d): fail("aspandas-val")
        m=nv.multi(["degree",nv.degree(order=1)])
        md=m.asdict()
        if list(md)!=list(nv) or any(md[n]!={"degree":deg[n],"degree(order=1)":nv.degree(order=1)[n]} for n in nv): fail("multi-asdict")
        if m.aslist()!=[[deg[n],nv.degree(order=1)[n]] for n in nv]: fail("multi-aslist")
        if m.asdict(transpose=True)!={"degree":deg.asdict(),"degree(order=1)":nv.degree(order=1).asdict()}: fail("multi-T")
        mp=m.aspandas()
        if H.num_nodes and (list(mp.index)!=list(nv) ): fail("multi-pandas-order")
        ops={"eq":operator.eq,"neq":operator.ne,"lt":operator.lt,"gt":operator.gt,"leq":operator.le,"geq":operator.ge}
        for mode,f in ops.items():
            for val in [0,1,2]:
                if list(nv.filterby("degree",val,mode))!=[n for n in nv if f(len(ms[n]),val)]: fail("filterby",mode)
                if list(ev.filterby("size",val,mode))!=[e for e in ev if f(len(mem[e]),val)]: fail("filterby-e",mode)
                got=list(nv.filterby_attr("c",val,mode))
                want=[n for n in nv if "c" in H.nodes[n] and isinstance(H.nodes[n]["c"],int) and f(H.nodes[n]["c"],val)]
                # only ints comparable
                if all(isinstance(H.nodes[n].get("c",0),int) for n in nv):
                    if got!=want: fail("filterby_attr",mode)
        if list(nv.filterby("degree",(1,2),"between"))!=[n for n in nv if 1<=len(ms[n])<=2]: fail("between")
        for n in nv:
            if nv.neighbors(n)!={x for e in ms[n] for x in mem[e]}-{n}: fail("neighbors")
            for s in [2,3]:
                if nv.neighbors(n,s=s)!={x for x in ms if x!=n and len(ms[n]&ms[x])>=s}: fail("neighbors-s")
        for e in ev:
            if ev.neighbors(e)!={x for v in mem[e] for x in ms[v]}-{e}: fail("eneighbors")
        if set(nv.isolates())!={n for n in ms if not ms[n]}: fail("isolates")
        if set(nv.isolates(ignore_singletons=True))!={n for n in ms if not any(len(mem[e])>=2 for e in ms[n])}: fail("isolates-ign", )
        if set(ev.singletons())!={e for e in mem if len(mem[e])==1}: fail("singletons")
        if set(ev.empty())!={e for e in mem if len(mem[e])==0}: fail("empty")
        dups=set(ev.duplicates()); cls=collections.defaultdict(list)
        for e,m_ in mem.items(): cls[frozenset(m_)].append(e)
        for m_,ids in cls.items():
            k=len(set(ids)&dups)
            if k!=len(ids)-1: fail("duplicates",ids,dups)
        for m_ in list(cls)[:3]:
            if set(ev.lookup(m_))!=set(cls[m_]): fail("lookup")
        if all(mem.values()):
            for strict in [False,True]:
                got=set(ev.maximal(strict=strict))
                if strict: want={e for e in mem if not any(o!=e and mem[e]<=mem[o] for o in mem)}
                else: want={e for e in mem if not any(mem[e]<mem[o] for o in mem)}
                if got!=want: fail("maximal",strict)
    # C07
    for cls_ in (xgi.Hypergraph,xgi.DiHypergraph,xgi.SimplicialComplex):
        H=rand_net(r,cls_)
        from proto_c10 import full
        for nm,mk in (("copy",lambda: H.copy()),("pickle",lambda: pickle.loads(pickle.dumps(H))),("ctor",lambda: cls_(H))):
            try: C=mk()
            except Exception as e: fail("c07-exc-"+nm+cls_.__name__,type(e).__name__,str(e)[:80]); continue
            if full(C)!=full(H): fail("c07-eq-"+nm+cls_.__name__)
            if list(C.nodes)!=list(H.nodes) or list(C.edges)!=list(H.edges): fail("c07-order-"+nm+cls_.__name__)
            b=copy.deepcopy(full(H))
            # edit C
            if cls_ is xgi.DiHypergraph: C.add_edge(([list(C.nodes)[0]],[777]))
            elif cls_ is xgi.SimplicialComplex: C.add_simplex([list(C.nodes)[0],777,778])
            else: C.add_edge([list(C.nodes)[0],777])
            if C.num_edges>1: 
                e0=list(C.edges)[0]
                (C.remove_simplex_id if cls_ is xgi.SimplicialComplex else C.remove_edge)(e0)
            C.remove_node(list(C.nodes)[0])
            if nm=="copy":
                for n in C.nodes:
                    for k,v in C.nodes[n].items():
                        if isinstance(v,list): v.append(9)
                        if isinstance(v,dict): v["zz"]=1
                for e in C.edges:
                    for k,v in C.edges[e].items():
                        if isinstance(v,list): v.append(9)
                        if isinstance(v,dict): v["zz"]=1
            if full(H)!=b: fail("c07-indep-"+nm+cls_.__name__)
N=int(sys.argv[1])
for s in range(N):
    r=random.Random(s)
    try: check(r)
    except Exception as e: fail("HARNESS",traceback.format_exc()[-900:])
for k,v in fails.most_common(): print(v,k,str(ex[k])[:500])
print("done")
