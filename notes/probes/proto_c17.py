import xgi, warnings, random, numpy as np, itertools, collections, traceback, sys, inspect, copy, networkx as nx
warnings.simplefilter("ignore")
from proto_c10 import full
def out_snap(o):
    if isinstance(o,(xgi.Hypergraph,xgi.DiHypergraph)): return (full(o), list(o.nodes), list(o.edges))
    if isinstance(o,dict): return {k:(np.asarray(v).tolist() if not isinstance(v,(int,str)) else v) for k,v in o.items()}
    if isinstance(o,tuple): return tuple(out_snap(x) for x in o)
    return o
H0=xgi.Hypergraph([[0,1,2],[2,3],[3,4,5],[5,6],[6,7,0],[1,4],[2,5,7]])
S0=xgi.SimplicialComplex([[0,1,2],[2,3],[3,4,5]])
G0=nx.erdos_renyi_graph(8,0.5,seed=3)
def args_for(name):
    n=6
    return {
     "fast_random_hypergraph":lambda s:((n,[0.3,0.2]),{}),
     "random_hypergraph":lambda s:((n,[0.3,0.2]),{}),
     "chung_lu_hypergraph":lambda s:(({i:2 for i in range(n)},{i:2 for i in range(n)}),{}),
     "dcsbm_hypergraph":lambda s:(({i:2 for i in range(n)},{i:2 for i in range(n)},{i:i%2 for i in range(n)},{i:i%2 for i in range(n)},np.array([[5,1],[1,5]])),{}),
     "watts_strogatz_hypergraph":lambda s:((8,3,2,1,0.5),{}),
     "uniform_hypergraph_configuration_model":lambda s:(({i:2 for i in range(n)},3),{}),
     "uniform_HSBM":lambda s:((6,2,np.array([[0.5,0.2],[0.2,0.5]]),[3,3]),{}),
     "uniform_HPPM":lambda s:((8,2,2,0.5),{}),
     "uniform_erdos_renyi_hypergraph":lambda s:((7,3,0.3),{}),
     "random_simplicial_complex":lambda s:((6,[0.4,0.2]),{}),
     "flag_complex":lambda s:((G0,),{"ps":[0.5]}),
     "flag_complex_d2":lambda s:((G0,),{"p2":0.5}),
     "random_flag_complex":lambda s:((7,0.5),{}),
     "random_flag_complex_d2":lambda s:((7,0.5),{}),
     "shuffle_hyperedges":lambda s:((H0,1,0.7),{}),
     "random_layout":lambda s:((H0,),{}),
     "pairwise_spring_layout":lambda s:((H0,),{}),
     "barycenter_spring_layout":lambda s:((H0,),{}),
     "weighted_barycenter_spring_layout":lambda s:((H0,),{}),
     "bipartite_spring_layout":lambda s:((H0,),{}),
     "spectral_clustering":lambda s:((H0,),{"k":2}),
    }[name]
seeded=[n for n in dir(xgi) if callable(getattr(xgi,n)) and not inspect.isclass(getattr(xgi,n)) and not n.startswith("_") and "seed" in inspect.signature(getattr(xgi,n)).parameters]
print(seeded)
for name in seeded:
    f=getattr(xgi,name); bad=0; 
    for seed in range(12):
        a,k=args_for(name)(seed); o1=out_snap(f(*copy.deepcopy(a),seed=seed,**k))
        random.random(); np.random.random(3); random.seed(seed*7+1) if seed%2 else None; np.random.seed(seed+5) if seed%3==0 else None
        f(*copy.deepcopy(a),seed=seed+100,**k)
        a,k=args_for(name)(seed); o2=out_snap(f(*copy.deepcopy(a),seed=seed,**k))
        if repr(o1)!=repr(o2): bad+=1
    print(name, "NONDET %d/12"%bad if bad else "ok")
