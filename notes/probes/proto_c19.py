import xgi, warnings, random, numpy as np, itertools, collections, traceback, sys, networkx as nx
warnings.simplefilter("ignore")
fails=collections.Counter(); ex={}
def fail(k,*info):
    fails[k]+=1; ex.setdefault(k,info)
def rand_h(r):
    kind=r.choice(["int","str","perm"])
    n=r.randint(1,7)
    nodes=list(range(n)) if kind!="str" else [chr(97+i) for i in range(n)]
    if kind=="perm": nodes=[x*3+1 for x in nodes]; r.shuffle(nodes)
    H=xgi.Hypergraph(); 
    for v in nodes: H.add_node(v, **({"c":r.randint(0,3)} if r.random()<0.5 else {}))
    m=r.randint(0,7)
    ids=list(range(m)); 
    if r.random()<0.5: ids=[i*2+1 for i in ids]; r.shuffle(ids)
    if r.random()<0.3: ids=["e%d"%i for i in ids]
    pool=[]
    for i in ids:
        k=r.choice([1,1,2,2,3,3,4]); mem=r.sample(nodes,min(k,len(nodes)))
        if pool and r.random()<0.25: mem=list(r.choice(pool))
        pool.append(mem)
        H.add_edge(mem,idx=i, **({"w":r.randint(0,3)} if r.random()<0.5 else {}))
    H["name"]="n"
    return H
def comps(nodes, msets):
    G=nx.Graph(); G.add_nodes_from(nodes)
    for m in msets:
        m=list(m)
        for a in m[1:]: G.add_edge(m[0],a)
    return [set(c) for c in nx.connected_components(G)]
def check(H,r):
    nodes=list(H.nodes); mem=H.edges.members(dtype=dict)
    for isolates,singletons,multiedges,connected,relabel in itertools.product([False,True],repeat=5):
        # expected
        E=[(e,frozenset(m)) for e,m in mem.items()]
        if not multiedges:
            seen={}; 
            for e,m in E: seen.setdefault(m,[]).append(e)
            E=[(sorted(v)[0],m) for m,v in seen.items()]
        if not singletons: E=[(e,m) for e,m in E if len(m)!=1]
        N=list(nodes)
        if not isolates: N=[v for v in N if any(v in m for e,m in E)]
        if connected:
            if not N: 
                try: xgi.Hypergraph.cleanup(H.copy(),isolates=isolates,singletons=singletons,multiedges=multiedges,connected=connected,relabel=relabel)
                except Exception as e_: fail("cleanup-empty-exc",type(e_).__name__)
                continue
            cs=comps(N,[m for e,m in E])
            big=max(map(len,cs))
        try: R=H.cleanup(isolates=isolates,singletons=singletons,multiedges=multiedges,connected=connected,relabel=relabel,in_place=False)
        except Exception as e_: fail("cleanup-exc",type(e_).__name__,str(e_)[:80]); continue
        if relabel:
            if list(R.nodes)!=list(range(R.num_nodes)) or list(R.edges)!=list(range(R.num_edges)): fail("relabel-range"); continue
            nl={v:R.nodes[v]["label"] for v in R.nodes}; 
            rn=[nl[v] for v in R.nodes]; re=collections.Counter(frozenset(nl[v] for v in m) for m in R.edges.members())
        else:
            rn=list(R.nodes); re=collections.Counter(frozenset(m) for m in R.edges.members())
        if connected:
            cand=[c for c in cs if len(c)==big]
            if set(rn) not in cand: fail("conn-comp",rn,cand); continue
            N=[v for v in N if v in set(rn)]; E=[(e,m) for e,m in E if m<=set(rn) ]
            if R.num_nodes and not xgi.is_connected(R): fail("not-connected")
        if set(rn)!=set(N) or len(rn)!=len(N): fail("cleanup-nodes",(isolates,singletons,multiedges,connected,relabel),rn,N)
        if re!=collections.Counter(m for e,m in E): fail("cleanup-edges",(isolates,singletons,multiedges,connected,relabel),re,E)
    # convert labels
    R=xgi.convert_labels_to_integers(H,"old")
    if list(R.nodes)!=list(range(H.num_nodes)) or list(R.edges)!=list(range(H.num_edges)): fail("cl-range")
    else:
        for i,v in enumerate(H.nodes):
            a=dict(R.nodes[i]); 
            if a.pop("old")!=v or a!=H.nodes[v]: fail("cl-nodeattr")
        for j,e in enumerate(H.edges):
            a=dict(R.edges[j]);
            if a.pop("old")!=e or a!=H.edges[e]: fail("cl-edgeattr")
            if {R.nodes[x]["old"] for x in R.edges.members(j)}!=mem[e]: fail("cl-members")
        if R._net_attr!=H._net_attr: fail("cl-net")
    # subhypergraph
    ns=r.sample(nodes,r.randint(0,len(nodes))); es=r.sample(list(mem),r.randint(0,len(mem)))
    for kw in [dict(nodes=ns),dict(edges=es),dict(nodes=ns,edges=es),dict(nodes=ns+["zz"],edges=es+["qq"],keep_isolates=False)]:
        R=xgi.subhypergraph(H,**kw)
        wn=set(kw.get("nodes",nodes))&set(nodes); we={e for e in kw.get("edges",mem) if e in mem and mem[e]<=wn}
        if not kw.get("keep_isolates",True): wn={v for v in wn if any(v in mem[e] for e in we)}
        if set(R.nodes)!=wn or R.edges.members(dtype=dict)!={e:mem[e] for e in we}: fail("sub",kw)
        if not R.is_frozen: fail("sub-frozen")
    # dual
    D=H.dual()
    if set(D.nodes)!=set(mem) or D.edges.members(dtype=dict)!=H.nodes.memberships(): fail("dual")
    if not list(H.nodes.isolates()) and all(mem.values()):
        DD=D.dual()
        if DD.edges.members(dtype=dict)!=mem or set(DD.nodes)!=set(nodes): fail("dual-inv")
        if {v:DD.nodes[v] for v in DD.nodes}!={v:H.nodes[v] for v in nodes}: fail("dual-inv-attr")
    # lshift
    H2=rand_h(r)
    U=H<<H2
    if set(U.nodes)!=set(H.nodes)|set(H2.nodes): fail("lshift-nodes")
    if [frozenset(m) for m in U.edges.members()]!=[frozenset(m) for m in H.edges.members()]+[frozenset(m) for m in H2.edges.members()]: fail("lshift-edges")
    # complement
    C=xgi.complement(H)
    ms=xgi.max_edge_order(H)+1
    have=set(map(frozenset,mem.values()))
    want={frozenset(c) for k in range(1,ms+1) for c in itertools.combinations(nodes,k)}-have
    got=[frozenset(m) for m in C.edges.members()]
    if set(got)!=want or len(got)!=len(want) or list(C.nodes)!=nodes: fail("complement")
    # cut_to_order
    mo=xgi.max_edge_order(H)
    for o in range(0,mo+1):
        R=xgi.cut_to_order(H,o)
        if R.edges.members(dtype=dict)!={e:m for e,m in mem.items() if len(m)<=o+1} or set(R.nodes)!=set(nodes): fail("cut")
    # largest_connected_hypergraph
    cs=comps(nodes,mem.values()); big=max(map(len,cs))
    for ip in [False,True]:
        if ip: R=H.copy(); xgi.largest_connected_hypergraph(R,in_place=True)
        else: R=xgi.largest_connected_hypergraph(H)
        if set(R.nodes) not in [c for c in cs if len(c)==big]: fail("lch-nodes")
        elif R.edges.members(dtype=dict)!={e:m for e,m in mem.items() if m<=set(R.nodes)}: fail("lch-edges",ip)
    # SC things
    S=xgi.SimplicialComplex(); S.add_nodes_from(nodes); S.add_simplices_from([list(m) for m in mem.values()])
    sm={frozenset(m) for m in S.edges.members()}
    F=xgi.from_max_simplices(S)
    wantmax={m for m in sm if not any(m<o for o in sm)}
    gm=[frozenset(m) for m in F.edges.members()]
    if set(gm)!=wantmax or len(gm)!=len(wantmax) or list(F.nodes)!=list(S.nodes): fail("maxsimp")
    so=xgi.max_edge_order(S)
    for o in range(0,(so or 0)+1):
        K=xgi.k_skeleton(S,o)
        if {frozenset(m) for m in K.edges.members()}!={m for m in sm if len(m)<=o+1}: fail("kskel")
N=int(sys.argv[1])
for s in range(N):
    r=random.Random(s); H=rand_h(r)
    try: check(H,r)
    except Exception as e: fail("HARNESS",traceback.format_exc()[-700:])
for k,v in fails.most_common(): print(v,k,str(ex[k])[:600])
print("done")
