import random, warnings, copy, sys, collections, traceback, itertools
import xgi
from xgi.exception import XGIError, IDNotFound
warnings.simplefilter("ignore")
def sc_inv(S, added_max=None):
    errs=[]
    for n,es in S._node.items():
        for e in es:
            if e not in S._edge or n not in S._edge[e]: errs.append("node->edge inconsistent")
    for e,ns in S._edge.items():
        for n in ns:
            if n not in S._node or e not in S._node[n]: errs.append("edge->node inconsistent")
    if set(S._node)!=set(S._node_attr) or set(S._edge)!=set(S._edge_attr): errs.append("attr keys")
    ms=[frozenset(m) for m in S._edge.values()]
    if len(set(ms))!=len(ms): errs.append("duplicate simplices")
    if any(len(m)==0 for m in ms): errs.append("empty simplex")
    s=set(ms)
    for m in s:
        for k in range(2,len(m)):
            for c in itertools.combinations(m,k):
                if frozenset(c) not in s: errs.append("not closed"); break
    return errs
def di_inv(D):
    errs=[]
    for n,d in D._node.items():
        for e in d["out"]:
            if e not in D._edge or n not in D._edge[e]["in"]: errs.append(f"node {n} out->{e} bad")
        for e in d["in"]:
            if e not in D._edge or n not in D._edge[e]["out"]: errs.append(f"node {n} in->{e} bad")
    for e,d in D._edge.items():
        for n in d["in"]:
            if n not in D._node or e not in D._node[n]["out"]: errs.append(f"edge {e} tail {n} bad")
        for n in d["out"]:
            if n not in D._node or e not in D._node[n]["in"]: errs.append(f"edge {e} head {n} bad")
    if set(D._node)!=set(D._node_attr) or set(D._edge)!=set(D._edge_attr): errs.append("attr keys")
    return errs
def mem(r,nodes,none=True):
    k=r.choice([0,1,2,2,3,3,4,5])
    m=[r.choice(nodes) for _ in range(k)]
    if none and r.random()<0.04: m.append(None)
    return m
def run_sc(seed):
    r=random.Random(seed); nodes=list(range(7)); eids=[0,1,2,3,5,"x","y"]
    S=xgi.SimplicialComplex(); hist=[]
    for step in range(20):
        c=r.choice(["add","add_id","bulk","rm","rms","rmn","rmns","close","cleanup","alias","wbulk"])
        before={frozenset(m) for m in S._edge.values()}; bids=dict(S._edge)
        op=None; exc=None; mo=None; new=None
        try:
            if c=="add": op=(c,mem(r,nodes)); S.add_simplex(op[1])
            elif c=="add_id": op=(c,mem(r,nodes),r.choice(eids)); S.add_simplex(op[1],idx=op[2],w=1)
            elif c=="bulk":
                fmt=r.choice([1,2,3,4,5]); k=r.randint(0,3); mo=r.choice([None,None,0,1,2,3])
                if fmt==1: b=[mem(r,nodes) for _ in range(k)]
                elif fmt==2: b=[(mem(r,nodes),r.choice(eids)) for _ in range(k)]
                elif fmt==3: b=[(mem(r,nodes),{"a":1}) for _ in range(k)]
                elif fmt==4: b=[(mem(r,nodes),r.choice(eids),{"a":1}) for _ in range(k)]
                else: b={r.choice(eids):mem(r,nodes) for _ in range(k)}
                op=(c,fmt,b,mo); S.add_simplices_from(b,max_order=mo)
            elif c=="wbulk": b=[tuple(mem(r,nodes,False))+(0.5,) for _ in range(2)]; op=(c,b); S.add_weighted_simplices_from(b)
            elif c=="rm": op=(c,r.choice(eids+list(S._edge))); S.remove_simplex_id(op[1])
            elif c=="rms": op=(c,[r.choice(eids+list(S._edge)) for _ in range(2)]); S.remove_simplex_ids_from(op[1])
            elif c=="rmn": op=(c,r.choice(nodes)); S.remove_node(op[1])
            elif c=="rmns": op=(c,[r.choice(nodes) for _ in range(2)]); S.remove_nodes_from(op[1])
            elif c=="close": op=(c,); S.close()
            elif c=="cleanup": op=(c,r.random()<0.5,r.random()<0.5,r.random()<0.5); 
            elif c=="alias":
                w=r.choice(["add_edge","add_edges_from","remove_edge","remove_edges_from"]); 
                if w=="add_edge": op=(c,w,mem(r,nodes)); S.add_edge(op[2])
                elif w=="add_edges_from": op=(c,w,[mem(r,nodes)]); S.add_edges_from(op[2])
                elif w=="remove_edge": op=(c,w,r.choice(eids+list(S._edge))); S.remove_edge(op[2])
                else: op=(c,w,[r.choice(eids+list(S._edge))]); S.remove_edges_from(op[2])
            if c=="cleanup" and S.num_nodes: S.cleanup(isolates=op[1],connected=op[2],relabel=op[3])
        except Exception as e: exc=e
        hist.append(op)
        errs=sc_inv(S)
        if errs: return ("C03",c,seed,step,op,sorted(set(errs)),repr(exc)[:80])
        after={frozenset(m) for m in S._edge.values()}
        if c=="bulk" and mo is not None and exc is None:
            for m_ in after-before:
                if len(m_)>mo+1: return ("C03-maxorder",c,seed,step,op)
        if c=="rm" and exc is None and op[1] in bids:
            t=frozenset(bids[op[1]])
            want={m for m in before if not t<=m}
            if after!=want: return ("C03-remove-exact",c,seed,step,op)
        for m_ in list(after)[:3]+[frozenset(mem(r,nodes,False))]:
            if S.has_simplex(m_)!=(m_ in after): return ("C03-has_simplex",c,seed,step)
    return None
def run_di(seed):
    r=random.Random(seed); nodes=list(range(6)); eids=[0,1,2,3,5,"x","y"]
    D=xgi.DiHypergraph()
    E=lambda: (mem(r,nodes),mem(r,nodes))
    for step in range(20):
        c=r.choice(["add","add_id","bulk","rm","rms","rmn","rmns","a2e","rfe","addn","clear","cleanup","relabel"])
        op=None; exc=None
        try:
            if c=="add": op=(c,E()); D.add_edge(op[1])
            elif c=="add_id": op=(c,E(),r.choice(eids)); D.add_edge(op[1],idx=op[2],w=1)
            elif c=="bulk":
                fmt=r.choice([1,2,3,4,5]); k=r.randint(0,3)
                if fmt==1: b=[E() for _ in range(k)]
                elif fmt==2: b=[(E(),r.choice(eids)) for _ in range(k)]
                elif fmt==3: b=[(E(),{"a":1}) for _ in range(k)]
                elif fmt==4: b=[(E(),r.choice(eids),{"a":1}) for _ in range(k)]
                else: b={r.choice(eids):E() for _ in range(k)}
                op=(c,fmt,b); D.add_edges_from(b,z=2)
            elif c=="rm": op=(c,r.choice(eids)); D.remove_edge(op[1])
            elif c=="rms": op=(c,[r.choice(eids) for _ in range(2)]); D.remove_edges_from(op[1])
            elif c=="rmn": op=(c,r.choice(nodes),r.random()<0.5,r.random()<0.6); D.remove_node(op[1],strong=op[2],remove_empty=op[3])
            elif c=="rmns": op=(c,[r.choice(nodes) for _ in range(2)],r.random()<0.5,r.random()<0.6); D.remove_nodes_from(op[1],strong=op[2],remove_empty=op[3])
            elif c=="a2e": op=(c,r.choice(eids),r.choice(nodes+[None]),r.choice(["in","out","x"])); D.add_node_to_edge(*op[1:])
            elif c=="rfe": op=(c,r.choice(eids),r.choice(nodes),r.choice(["in","out"]),r.random()<0.6); D.remove_node_from_edge(op[1],op[2],op[3],remove_empty=op[4])
            elif c=="addn": op=(c,[r.choice(nodes),(r.choice(nodes),{"q":1})]); D.add_nodes_from(op[1])
            elif c=="clear": op=(c,); 
            elif c=="cleanup": op=(c,r.random()<0.5,r.random()<0.5); D.cleanup(isolates=op[1],relabel=op[2])
            elif c=="relabel": op=(c,); xgi.convert_labels_to_integers(D,in_place=True)
        except Exception as e: exc=e
        errs=di_inv(D)
        if errs: return ("C02",c,seed,step,op,errs[:3],repr(exc)[:80])
        # stats
        try:
            dm=D.nodes.dimemberships(); 
            if D.nodes.in_degree.asdict()!={n:len(dm[n][0]) for n in dm} or D.nodes.out_degree.asdict()!={n:len(dm[n][1]) for n in dm}: return ("C02-degree",c,seed,step)
        except Exception as e: return ("C02-stat-exc",c,seed,step,op,repr(e)[:80])
    return None
if __name__=="__main__":
    print(xgi.__file__)
    N=int(sys.argv[1]); res=collections.Counter(); ex={}
    for f in (run_sc,run_di):
        for s in range(N):
            try: out=f(s)
            except Exception as e: out=("HARNESS",f.__name__,traceback.format_exc()[-600:])
            if out:
                key=out[:2]; res[key]+=1; ex.setdefault(key,out)
    for k,v in res.most_common(): print(v,k); print("   ",str(ex[k])[:500])
