import xgi, warnings, numpy as np
import matplotlib; matplotlib.use("Agg"); import matplotlib.pyplot as plt
warnings.simplefilter("ignore")
def t(name, f):
    try: r=f(); print(name, "-> ok"); plt.close("all")
    except Exception as e: print(name, "EXC", type(e).__name__, str(e)[:150]); plt.close("all")
cases={
 "tuple labels":[[(0,1),(1,2),(2,3)],[(0,1),(2,3)]],
 "float labels":[[0.5,1.5,2.5],[0.5,1.5]],
 "float int-valued":[[0.0,1.0,2.0],[0.0,1.0]],
 "mixed":[[1,"a",2],["a","b"]],
 "mixed2":[["a",1,2],[1,"b"]],
 "bool":[[True,2,3],[2,3]],
 "only big":[[1,2,3],[2,3,4,5]],
 "only dyads":[[1,2],[2,3]],
 "one dyad":[[1,2]],
 "singleton+dyad":[[1],[1,2]],
 "np ints":[[np.int64(1),np.int64(2),np.int64(3)],[np.int64(1),np.int64(2)]],
 "dup":[[1,2,3],[1,2,3],[1,2],[1,2]],
}
for nm,el in cases.items():
    for cls in (xgi.Hypergraph,xgi.SimplicialComplex):
        try: H=cls(el)
        except Exception as e: print(nm,cls.__name__,"CONSTRUCT EXC",type(e).__name__,str(e)[:100]); continue
        H.add_node("iso" if isinstance(list(H.nodes)[0],str) else 99)
        t(nm+" "+cls.__name__+" draw", lambda: xgi.draw(H))
        t(nm+" "+cls.__name__+" draw circ", lambda: xgi.draw(H,pos=xgi.circular_layout(H)))
