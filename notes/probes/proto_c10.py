import xgi, warnings, random, numpy as np, itertools, collections, traceback, sys, networkx as nx, tempfile, os, shutil
warnings.simplefilter("ignore")
fails=collections.Counter(); ex={}
def fail(k,*info):
    fails[k]+=1; ex.setdefault(k,info)
def inc(H):
    if isinstance(H,xgi.DiHypergraph):
        return {(n,e,"t") for e,(t,h) in H.edges.dimembers(dtype=dict).items() for n in t}|{(n,e,"h") for e,(t,h) in H.edges.dimembers(dtype=dict).items() for n in h}
    return {(n,e) for e,m in H.edges.members(dtype=dict).items() for n in m}
def full(H):
    return (type(H).__name__, {n:dict(H.nodes[n]) for n in H.nodes}, {e:dict(H.edges[e]) for e in H.edges}, inc(H), dict(H._net_attr))
def rand_net(r, cls, kind=None, empties=True, isolates=True, attrs=True):
    kind=kind or r.choice(["int","str"])
    n=r.randint(1,6)
    nodes=r.sample(range(0,12),n) if kind=="int" else [chr(97+i) for i in r.sample(range(12),n)]
    H=cls()
    A=lambda: ({r.choice(["c","w"]):r.choice([1,2,"x",[1,2],{"k":1}])} if attrs and r.random()<0.4 else {})
    if isolates: 
        for v in nodes: H.add_node(v,**A())
    m=r.randint(0,5)
    ekind=r.choice(["int","str"])
    ids=r.sample(range(0,12),m) if ekind=="int" else ["e%d"%i for i in r.sample(range(12),m)]
    for i in ids:
        k=r.choice([0] if empties and r.random()<0.15 else [1,2,2,3,3])
        mem=r.sample(nodes,min(k,len(nodes)))
        if cls is xgi.DiHypergraph:
            t=[v for v in mem if r.random()<0.6]; h=[v for v in mem if v not in t or r.random()<0.3]
            H.add_edge((t,h),idx=i,**A())
        elif cls is xgi.SimplicialComplex:
            if mem: H.add_simplex(mem,idx=i if i!=0 else "z",**A())
        else: H.add_edge(mem,idx=i,**A())
    if attrs and r.random()<0.6: H["name"]="net"; 
    return H
tmp=tempfile.mkdtemp()
def check(r):
    # hyperedge list/dict
    H=rand_net(r,xgi.Hypergraph)
    R=xgi.from_hyperedge_dict(xgi.to_hyperedge_dict(H))
    if inc(R)!=inc(H) or list(R.edges)!=list(H.edges): fail("hdict")
    R=xgi.from_hyperedge_list(xgi.to_hyperedge_list(H)) if H.num_edges and all(H.edges.members()) else None
    if R is not None and [frozenset(m) for m in R.edges.members()]!=[frozenset(m) for m in H.edges.members()]: fail("hlist")
    if H.num_edges and inc(H):
        R=xgi.from_bipartite_edgelist(xgi.to_bipartite_edgelist(H))
        if inc(R)!=inc(H): fail("bel")
        I,rd,cd=xgi.to_incidence_matrix(H,index=True)
        R=xgi.from_incidence_matrix(I,nodelabels=[rd[i] for i in range(len(rd))],edgelabels=[cd[i] for i in range(len(cd))])
        if inc(R)!=inc(H): fail("incmat-labelled")
        R=xgi.from_incidence_matrix(xgi.to_incidence_matrix(H,sparse=False))
        nl=list(H.nodes); el=list(H.edges)
        if {(nl[a],el[b]) for a,b in inc(R)}!=inc(H): fail("incmat-pos")
        df=xgi.to_bipartite_pandas_dataframe(H)
        R=xgi.from_bipartite_pandas_dataframe(df,node_column="Node ID",edge_column="Edge ID")
        if inc(R)!=inc(H): fail("pandas",inc(R),inc(H))
        R=xgi.Hypergraph(df)
        if inc(R)!=inc(H): fail("pandas-ctor")
    G,nd,ed=xgi.to_bipartite_graph(H,index=True)
    R=xgi.from_bipartite_graph(G)
    if {(nd[a],ed[b]) for a,b in inc(R)}!=inc(H): fail("bipgraph")
    # shuffled insertion order
    G2=nx.Graph(); ns=list(G.nodes(data=True)); r.shuffle(ns); G2.add_nodes_from(ns); es=list(G.edges); r.shuffle(es); es=[(b,a) if r.random()<0.5 else (a,b) for a,b in es]; G2.add_edges_from(es)
    try:
        R=xgi.from_bipartite_graph(G2)
        if {(nd[a],ed[b]) for a,b in inc(R) if a in nd and b in ed}!=inc(H) or len(inc(R))!=len(inc(H)): fail("bipgraph-order")
    except Exception as e: fail("bipgraph-order-exc",type(e).__name__)
    D=rand_net(r,xgi.DiHypergraph)
    G,nd,ed=xgi.to_bipartite_graph(D,index=True)
    R=xgi.from_bipartite_graph(G)
    if {(nd[a],ed[b],d) for a,b,d in inc(R)}!=inc(D): fail("bipgraph-di")
    if inc(D):
        R=xgi.from_bipartite_edgelist(xgi.to_bipartite_edgelist(D))
        if inc(R)!=inc(D): fail("bel-di")
    # hypergraph dict (orderable, castable)
    for kind in ["int","str"]:
        H=rand_net(r,xgi.Hypergraph,kind=kind)
        try:
            d=xgi.to_hypergraph_dict(H)
            nt=int if kind=="int" else None
            et=int if all(isinstance(e,int) for e in H.edges) else None
            R=xgi.from_hypergraph_dict(d,nodetype=nt,edgetype=et)
            if full(R)!=full(H): fail("hgdict",full(R),full(H))
        except Exception as e: fail("hgdict-exc",type(e).__name__,str(e)[:100])
    for cls in (xgi.Hypergraph,xgi.DiHypergraph,xgi.SimplicialComplex):
        H=rand_net(r,cls)
        try:
            R=xgi.from_hif_dict(xgi.to_hif_dict(H))
            if full(R)!=full(H): fail("hif-"+cls.__name__,[ (a,b) for a,b in zip(full(R),full(H)) if a!=b][:2])
            p=os.path.join(tmp,"x.json"); xgi.write_hif(H,p); R=xgi.read_hif(p)
            if full(R)!=full(H): fail("hif-file-"+cls.__name__,[ (a,b) for a,b in zip(full(R),full(H)) if a!=b][:2])
        except Exception as e: fail("hif-exc-"+cls.__name__,type(e).__name__,str(e)[:100])
    # class to class
    H=rand_net(r,xgi.Hypergraph)
    S=xgi.SimplicialComplex(H)
    want={frozenset(c) for m in H.edges.members() if m for k in range(2,len(m)+1) for c in itertools.combinations(m,k)}|{frozenset(m) for m in H.edges.members() if len(m)==1}
    if {frozenset(m) for m in S.edges.members()}!=want or len(S.edges)!=len(want): fail("H->SC members")
    if {n:S.nodes[n] for n in S.nodes}!={n:H.nodes[n] for n in H.nodes}: fail("H->SC nodes")
    if S._net_attr!=H._net_attr: fail("H->SC net")
    for e in H.edges:
        if e in S.edges and S.edges.members(e)==H.edges.members(e) and S.edges[e]!=H.edges[e]: fail("H->SC eattr")
    S=rand_net(r,xgi.SimplicialComplex); H=xgi.Hypergraph(S)
    if full(H)[1:]!=full(S)[1:]: fail("SC->H")
    D=rand_net(r,xgi.DiHypergraph); H=xgi.Hypergraph(D)
    if {n:H.nodes[n] for n in H.nodes}!={n:D.nodes[n] for n in D.nodes} or H.edges.members(dtype=dict)!=D.edges.members(dtype=dict) or {e:H.edges[e] for e in H.edges}!={e:D.edges[e] for e in D.edges} or H._net_attr!=D._net_attr: fail("D->H")
    # files
    H=rand_net(r,xgi.Hypergraph,empties=False,attrs=False)
    if H.num_edges:
        for delim in [" ",",","\t",";","|"]:
            p=os.path.join(tmp,"e.txt"); xgi.write_edgelist(H,p,delimiter=delim)
            nt=int if isinstance(list(H.nodes)[0],int) else None
            R=xgi.read_edgelist(p,delimiter=delim,nodetype=nt)
            if [frozenset(m) for m in R.edges.members()]!=[frozenset(m) for m in H.edges.members()]: fail("edgelist",delim)
            xgi.write_bipartite_edgelist(H,p,delimiter=delim)
            et=int if all(isinstance(e,int) for e in H.edges) else None
            R=xgi.read_bipartite_edgelist(p,delimiter=delim,nodetype=nt,edgetype=et)
            if inc(R)!=inc(H): fail("bipfile",delim)
            xgi.write_incidence_matrix(H,p,delimiter=delim)
            try:
                R=xgi.read_incidence_matrix(p,delimiter=delim)
                nl=list(H.nodes); el=list(H.edges)
                if {(nl[a],el[b]) for a,b in inc(R)}!=inc(H): fail("incfile")
            except Exception as e: fail("incfile-exc",type(e).__name__,H.num_nodes,H.num_edges)
        p=os.path.join(tmp,"j.json")
        H2=rand_net(r,xgi.Hypergraph,kind="int"); 
        try:
            xgi.write_json(H2,p); R=xgi.read_json(p,nodetype=int,edgetype=int if all(isinstance(e,int) for e in H2.edges) else None)
            if full(R)!=full(H2): fail("json")
        except Exception as e: fail("json-exc",type(e).__name__,str(e)[:80])
N=int(sys.argv[1])
for s in range(N):
    r=random.Random(s)
    try: check(r)
    except Exception as e: fail("HARNESS",traceback.format_exc()[-700:])
for k,v in fails.most_common(): print(v,k,str(ex[k])[:700])
print("done"); shutil.rmtree(tmp)
